package faiss

import (
	"encoding/binary"
	"encoding/json"
	"errors"
	"fmt"
	"math"
	"sort"
	"strconv"
	"strings"
	"sync"
)

// Metric types (values as in the real library).
const (
	MetricInnerProduct = 0
	MetricL2           = 1
)

// IO flags (values as in the real library; the double ignores them).
const (
	IOFlagMmap         = 1
	IOFlagReadOnly     = 2
	IOFlagReadMmap     = 0x646f0000 | 0x8
	IOFlagSkipPrefetch = 0x10
)

// ErrInjected is returned by an operation that the fault plan makes fail.
var ErrInjected = errors.New("fakefaiss: injected engine failure")

// Score is the engine's scoring function: squared L2 distance (smaller is
// better) or dot product (larger is better). The oracle uses the same
// function for "true score": the property under test is zapx's plumbing,
// not FAISS numerics.
func Score(metric int, q, v []float32) float32 {
	var s float32
	if metric == MetricL2 {
		for i := range q {
			d := q[i] - v[i]
			s += d * d
		}
		return s
	}
	for i := range q {
		s += q[i] * v[i]
	}
	return s
}

// Better reports whether score a ranks before b under metric.
func Better(metric int, a, b float32) bool {
	if metric == MetricL2 {
		return a < b
	}
	return a > b
}

const (
	kindFlat = 0
	kindIVF  = 1
)

type core struct {
	mu        sync.Mutex
	h         int64
	kind      int
	quant     string
	d         int
	metric    int
	nlist     int
	nprobe    int32
	trained   bool
	directMap int
	centroids [][]float32
	ids       []int64
	vecs      [][]float32
	assign    []int
	byID      map[int64]int
	closed    bool
	active    int
}

// Index is the interface WriteIndexIntoBuffer accepts.
type Index interface {
	core() *core
}

// IndexImpl mirrors go-faiss' IndexImpl.
type IndexImpl struct {
	c *core
}

func (i *IndexImpl) core() *core { return i.c }

// enter marks the start of an operation on the index; it reports misuse to
// the monitor. The returned func marks the end.
func (i *IndexImpl) enter(op string) (func(), error) {
	c := i.c
	c.mu.Lock()
	if c.closed {
		c.mu.Unlock()
		mon.violation(fmt.Sprintf("use-after-close: %s on index #%d", op, c.h))
		return func() {}, fmt.Errorf("fakefaiss: %s on closed index #%d", op, c.h)
	}
	c.active++
	c.mu.Unlock()
	mon.use(c.h, op)
	return func() {
		c.mu.Lock()
		c.active--
		c.mu.Unlock()
	}, nil
}

func parseDescription(desc string) (kind int, nlist int, quant string, err error) {
	switch {
	case desc == "IDMap2,Flat":
		return kindFlat, 0, "Flat", nil
	case strings.HasPrefix(desc, "IVF"):
		parts := strings.SplitN(desc[3:], ",", 2)
		if len(parts) != 2 {
			return 0, 0, "", fmt.Errorf("fakefaiss: bad description %q", desc)
		}
		n, e := strconv.Atoi(parts[0])
		if e != nil || n <= 0 {
			return 0, 0, "", fmt.Errorf("fakefaiss: bad description %q", desc)
		}
		switch parts[1] {
		case "Flat", "SQ8", "SQ4":
		default:
			return 0, 0, "", fmt.Errorf("fakefaiss: unknown quantiser in %q", desc)
		}
		return kindIVF, n, parts[1], nil
	}
	return 0, 0, "", fmt.Errorf("fakefaiss: unsupported description %q", desc)
}

// IndexFactory builds an index from a description string.
func IndexFactory(d int, description string, metric int) (*IndexImpl, error) {
	if err := mon.call("IndexFactory"); err != nil {
		return nil, err
	}
	kind, nlist, quant, err := parseDescription(description)
	if err != nil {
		return nil, err
	}
	if d <= 0 {
		return nil, fmt.Errorf("fakefaiss: dimension %d", d)
	}
	c := &core{kind: kind, quant: quant, d: d, metric: metric, nlist: nlist, nprobe: 1, byID: map[int64]int{}}
	c.trained = kind == kindFlat
	c.h = mon.create("index", "IndexFactory:"+description)
	return &IndexImpl{c}, nil
}

// SetOMPThreads is a no-op in the double.
func SetOMPThreads(n uint) {}

func (i *IndexImpl) D() int {
	done, err := i.enter("D")
	defer done()
	if err != nil {
		return 0
	}
	return i.c.d
}

func (i *IndexImpl) MetricType() int {
	done, err := i.enter("MetricType")
	defer done()
	if err != nil {
		return 0
	}
	return i.c.metric
}

func (i *IndexImpl) Ntotal() int64 {
	done, err := i.enter("Ntotal")
	defer done()
	if err != nil {
		return 0
	}
	return int64(len(i.c.ids))
}

func (i *IndexImpl) Size() uint64 {
	done, err := i.enter("Size")
	defer done()
	if err != nil {
		return 0
	}
	return uint64(64 + len(i.c.ids)*(8+4*i.c.d) + len(i.c.centroids)*4*i.c.d)
}

func (i *IndexImpl) IsIVFIndex() bool {
	done, err := i.enter("IsIVFIndex")
	defer done()
	if err != nil {
		return false
	}
	return i.c.kind == kindIVF
}

func (i *IndexImpl) SetDirectMap(mapType int) error {
	done, err := i.enter("SetDirectMap")
	defer done()
	if err != nil {
		return err
	}
	if err := mon.call("SetDirectMap"); err != nil {
		return err
	}
	if i.c.kind != kindIVF {
		return errors.New("fakefaiss: SetDirectMap on a non-IVF index")
	}
	i.c.directMap = mapType
	return nil
}

func (i *IndexImpl) SetNProbe(nprobe int32) {
	done, err := i.enter("SetNProbe")
	defer done()
	if err != nil {
		return
	}
	if nprobe < 1 {
		nprobe = 1
	}
	i.c.nprobe = nprobe
}

func (i *IndexImpl) GetNProbe() int32 {
	done, err := i.enter("GetNProbe")
	defer done()
	if err != nil {
		return 0
	}
	return i.c.nprobe
}

// Train picks nlist centroids deterministically from the training data.
func (i *IndexImpl) Train(x []float32) error {
	done, err := i.enter("Train")
	defer done()
	if err != nil {
		return err
	}
	if err := mon.call("Train"); err != nil {
		return err
	}
	c := i.c
	if c.kind != kindIVF {
		return nil
	}
	n := len(x) / c.d
	if n == 0 {
		return errors.New("fakefaiss: Train without data")
	}
	c.centroids = nil
	for k := 0; k < c.nlist; k++ {
		j := (k * n) / c.nlist
		c.centroids = append(c.centroids, append([]float32(nil), x[j*c.d:(j+1)*c.d]...))
	}
	c.trained = true
	return nil
}

func (c *core) nearestCentroid(v []float32) int {
	best, bi := float32(math.MaxFloat32), 0
	for k, ce := range c.centroids {
		if s := Score(MetricL2, v, ce); s < best {
			best, bi = s, k
		}
	}
	return bi
}

func (i *IndexImpl) AddWithIDs(x []float32, xids []int64) error {
	done, err := i.enter("AddWithIDs")
	defer done()
	if err != nil {
		return err
	}
	if err := mon.call("AddWithIDs"); err != nil {
		return err
	}
	c := i.c
	if len(x) != len(xids)*c.d {
		return fmt.Errorf("fakefaiss: AddWithIDs: %d floats for %d ids of dimension %d", len(x), len(xids), c.d)
	}
	if c.kind == kindIVF && (!c.trained || c.directMap == 0) {
		return errors.New("fakefaiss: AddWithIDs on an untrained IVF index / without direct map")
	}
	for k, id := range xids {
		v := append([]float32(nil), x[k*c.d:(k+1)*c.d]...)
		if _, dup := c.byID[id]; dup {
			mon.count("duplicate_vector_ids", 1)
		}
		c.byID[id] = len(c.ids)
		c.ids = append(c.ids, id)
		c.vecs = append(c.vecs, v)
		a := 0
		if c.kind == kindIVF {
			a = c.nearestCentroid(v)
		}
		c.assign = append(c.assign, a)
	}
	return nil
}

// ReconstructBatch fails for an unknown id, like the real engine.
func (i *IndexImpl) ReconstructBatch(keys []int64, recons []float32) ([]float32, error) {
	done, err := i.enter("ReconstructBatch")
	defer done()
	if err != nil {
		return recons, err
	}
	if err := mon.call("ReconstructBatch"); err != nil {
		return recons, err
	}
	c := i.c
	if len(recons) < len(keys)*c.d {
		return recons, fmt.Errorf("fakefaiss: ReconstructBatch: buffer of %d floats for %d keys", len(recons), len(keys))
	}
	for k, id := range keys {
		j, ok := c.byID[id]
		if !ok {
			return recons, fmt.Errorf("fakefaiss: ReconstructBatch: unknown id %d", id)
		}
		copy(recons[k*c.d:(k+1)*c.d], c.vecs[j])
	}
	return recons, nil
}

func (i *IndexImpl) Close() {
	c := i.c
	c.mu.Lock()
	if c.closed {
		c.mu.Unlock()
		mon.violation(fmt.Sprintf("double-close: index #%d", c.h))
		return
	}
	if c.active > 0 {
		mon.violation(fmt.Sprintf("close-during-use: index #%d closed while %d operation(s) are running on it", c.h, c.active))
	}
	c.closed = true
	c.mu.Unlock()
	mon.close(c.h)
}

// ---------------------------------------------------------------------------
// selectors

// Selector mirrors go-faiss' Selector.
type Selector interface {
	Delete()
	sel() *selector
}

type selector struct {
	h      int64
	ids    map[int64]bool
	not    bool
	mu     sync.Mutex
	closed bool
}

func (s *selector) sel() *selector { return s }
func (s *selector) Delete() {
	s.mu.Lock()
	defer s.mu.Unlock()
	if s.closed {
		mon.violation(fmt.Sprintf("double-close: selector #%d", s.h))
		return
	}
	s.closed = true
	mon.close(s.h)
}
func (s *selector) pass(id int64) bool { return s.ids[id] != s.not }

func newSelector(ids []int64, not bool, op string) (Selector, error) {
	if err := mon.call(op); err != nil {
		return nil, err
	}
	s := &selector{ids: make(map[int64]bool, len(ids)), not: not}
	for _, id := range ids {
		s.ids[id] = true
	}
	s.h = mon.create("selector", op)
	return s, nil
}

// NewIDSelectorBatch selects exactly the given ids.
func NewIDSelectorBatch(indices []int64) (Selector, error) {
	return newSelector(indices, false, "NewIDSelectorBatch")
}

// NewIDSelectorNot selects everything but the given ids.
func NewIDSelectorNot(exclude []int64) (Selector, error) {
	return newSelector(exclude, true, "NewIDSelectorNot")
}

// ---------------------------------------------------------------------------
// search

type cand struct {
	id    int64
	score float32
	ord   int
}

// topK returns exactly k slots, best first, padded with label -1.
func (c *core) topK(cands []cand, k int64) ([]float32, []int64) {
	sort.SliceStable(cands, func(a, b int) bool {
		if cands[a].score != cands[b].score {
			return Better(c.metric, cands[a].score, cands[b].score)
		}
		return cands[a].ord < cands[b].ord
	})
	dist := make([]float32, k)
	lab := make([]int64, k)
	pad := float32(math.MaxFloat32)
	if c.metric != MetricL2 {
		pad = -math.MaxFloat32
	}
	for j := int64(0); j < k; j++ {
		if j < int64(len(cands)) {
			dist[j], lab[j] = cands[j].score, cands[j].id
		} else {
			dist[j], lab[j] = pad, -1
		}
	}
	return dist, lab
}

func (c *core) probeOrder(x []float32) []int {
	order := make([]int, len(c.centroids))
	ds := make([]float32, len(c.centroids))
	for k := range c.centroids {
		order[k] = k
		ds[k] = Score(MetricL2, x, c.centroids[k])
	}
	sort.SliceStable(order, func(a, b int) bool { return ds[order[a]] < ds[order[b]] })
	return order
}

func (c *core) search(x []float32, k int64, pass func(int64) bool, clusters map[int]bool) ([]float32, []int64, error) {
	if len(x) != c.d {
		return nil, nil, fmt.Errorf("fakefaiss: query of dimension %d on an index of dimension %d", len(x), c.d)
	}
	if k <= 0 {
		return nil, nil, nil
	}
	var cands []cand
	for j, id := range c.ids {
		if clusters != nil && !clusters[c.assign[j]] {
			continue
		}
		if pass != nil && !pass(id) {
			continue
		}
		cands = append(cands, cand{id, Score(c.metric, x, c.vecs[j]), j})
	}
	d, l := c.topK(cands, k)
	return d, l, nil
}

func (c *core) defaultClusters(x []float32) map[int]bool {
	if c.kind != kindIVF {
		return nil
	}
	cl := map[int]bool{}
	for n, k := range c.probeOrder(x) {
		if n >= int(c.nprobe) {
			break
		}
		cl[k] = true
	}
	return cl
}

// exhaustive reports whether the search parameters ask for every cluster of a
// clustered index to be probed ({"ivf_nprobe_pct": 100}, the spelling of the
// real engine's IVF search parameters): the search is then an exact one.
func exhaustive(params json.RawMessage) bool {
	if len(params) == 0 {
		return false
	}
	var p struct {
		Pct float64 `json:"ivf_nprobe_pct"`
	}
	if err := json.Unmarshal(params, &p); err != nil {
		return false
	}
	return p.Pct >= 100
}

func (c *core) clustersFor(x []float32, params json.RawMessage) map[int]bool {
	if exhaustive(params) {
		return nil
	}
	return c.defaultClusters(x)
}

// SearchWithoutIDs: k nearest vectors whose id is not in exclude.
func (i *IndexImpl) SearchWithoutIDs(x []float32, k int64, exclude []int64, params json.RawMessage) ([]float32, []int64, error) {
	done, err := i.enter("SearchWithoutIDs")
	defer done()
	if err != nil {
		return nil, nil, err
	}
	if err := mon.call("SearchWithoutIDs"); err != nil {
		return nil, nil, err
	}
	var pass func(int64) bool
	if len(exclude) > 0 {
		ex := make(map[int64]bool, len(exclude))
		for _, id := range exclude {
			ex[id] = true
		}
		pass = func(id int64) bool { return !ex[id] }
	}
	return i.c.search(x, k, pass, i.c.clustersFor(x, params))
}

// SearchWithIDs: k nearest vectors among include.
func (i *IndexImpl) SearchWithIDs(x []float32, k int64, include []int64, params json.RawMessage) ([]float32, []int64, error) {
	done, err := i.enter("SearchWithIDs")
	defer done()
	if err != nil {
		return nil, nil, err
	}
	if err := mon.call("SearchWithIDs"); err != nil {
		return nil, nil, err
	}
	in := make(map[int64]bool, len(include))
	for _, id := range include {
		in[id] = true
	}
	return i.c.search(x, k, func(id int64) bool { return in[id] }, i.c.clustersFor(x, params))
}

// ObtainClusterVectorCountsFromIVFIndex counts the given ids per cluster.
func (i *IndexImpl) ObtainClusterVectorCountsFromIVFIndex(vecIDs []int64) (map[int64]int64, error) {
	done, err := i.enter("ObtainClusterVectorCounts")
	defer done()
	if err != nil {
		return nil, err
	}
	if err := mon.call("ObtainClusterVectorCounts"); err != nil {
		return nil, err
	}
	c := i.c
	if c.kind != kindIVF {
		return nil, errors.New("index is not an IVF index")
	}
	rv := make(map[int64]int64)
	for _, id := range vecIDs {
		j, ok := c.byID[id]
		if !ok {
			return nil, fmt.Errorf("fakefaiss: unknown vector id %d", id)
		}
		rv[int64(c.assign[j])]++
	}
	return rv, nil
}

// ObtainClustersWithDistancesFromIVFIndex orders the given centroids by proximity to x.
func (i *IndexImpl) ObtainClustersWithDistancesFromIVFIndex(x []float32, centroidIDs []int64) ([]int64, []float32, error) {
	done, err := i.enter("ObtainClustersWithDistances")
	defer done()
	if err != nil {
		return nil, nil, err
	}
	if err := mon.call("ObtainClustersWithDistances"); err != nil {
		return nil, nil, err
	}
	c := i.c
	if c.kind != kindIVF {
		return nil, nil, errors.New("index is not an IVF index")
	}
	ids := append([]int64(nil), centroidIDs...)
	ds := map[int64]float32{}
	for _, id := range ids {
		if id < 0 || int(id) >= len(c.centroids) {
			return nil, nil, fmt.Errorf("fakefaiss: unknown centroid %d", id)
		}
		ds[id] = Score(MetricL2, x, c.centroids[id])
	}
	sort.SliceStable(ids, func(a, b int) bool {
		if ds[ids[a]] != ds[ids[b]] {
			return ds[ids[a]] < ds[ids[b]]
		}
		return ids[a] < ids[b]
	})
	out := make([]float32, len(ids))
	for k, id := range ids {
		out[k] = ds[id]
	}
	return ids, out, nil
}

// SearchClustersFromIVFIndex searches the first minEligibleCentroids of the
// ordered centroid list under the selector.
func (i *IndexImpl) SearchClustersFromIVFIndex(selector Selector, eligibleCentroidIDs []int64,
	minEligibleCentroids int, k int64, x, centroidDis []float32, params json.RawMessage) ([]float32, []int64, error) {
	done, err := i.enter("SearchClusters")
	defer done()
	if err != nil {
		return nil, nil, err
	}
	if err := mon.call("SearchClusters"); err != nil {
		return nil, nil, err
	}
	s := selector.sel()
	s.mu.Lock()
	if s.closed {
		s.mu.Unlock()
		mon.violation(fmt.Sprintf("use-after-close: selector #%d", s.h))
		return nil, nil, errors.New("fakefaiss: selector used after Delete")
	}
	s.mu.Unlock()
	if minEligibleCentroids > len(eligibleCentroidIDs) || exhaustive(params) {
		minEligibleCentroids = len(eligibleCentroidIDs)
	}
	cl := map[int]bool{}
	for _, id := range eligibleCentroidIDs[:minEligibleCentroids] {
		cl[int(id)] = true
	}
	return i.c.search(x, k, s.pass, cl)
}

// ---------------------------------------------------------------------------
// serialisation

var magic = []byte("FKFS1\x00")

// WriteIndexIntoBuffer serialises an index.
func WriteIndexIntoBuffer(idx Index) ([]byte, error) {
	c := idx.core()
	c.mu.Lock()
	closed := c.closed
	c.mu.Unlock()
	if closed {
		mon.violation(fmt.Sprintf("use-after-close: WriteIndexIntoBuffer on index #%d", c.h))
		return nil, errors.New("fakefaiss: WriteIndexIntoBuffer on a closed index")
	}
	mon.use(c.h, "WriteIndexIntoBuffer")
	if err := mon.call("WriteIndexIntoBuffer"); err != nil {
		return nil, err
	}
	var b []byte
	u := func(v uint64) { b = binary.AppendUvarint(b, v) }
	f := func(v float32) { b = binary.LittleEndian.AppendUint32(b, math.Float32bits(v)) }
	b = append(b, magic...)
	u(uint64(c.kind))
	u(uint64(len(c.quant)))
	b = append(b, c.quant...)
	u(uint64(c.d))
	u(uint64(c.metric))
	u(uint64(c.nlist))
	u(uint64(c.nprobe))
	u(uint64(c.directMap))
	if c.trained {
		u(1)
	} else {
		u(0)
	}
	u(uint64(len(c.centroids)))
	for _, ce := range c.centroids {
		for _, v := range ce {
			f(v)
		}
	}
	u(uint64(len(c.ids)))
	for j, id := range c.ids {
		b = binary.AppendVarint(b, id)
		u(uint64(c.assign[j]))
		for _, v := range c.vecs[j] {
			f(v)
		}
	}
	b = append(b, "END."...)
	return b, nil
}

// ReadIndexFromBuffer deserialises an index (a fresh native object that the
// caller must Close).
func ReadIndexFromBuffer(buf []byte, ioflags int) (*IndexImpl, error) {
	if err := mon.call("ReadIndexFromBuffer"); err != nil {
		return nil, err
	}
	bad := func(what string) (*IndexImpl, error) {
		return nil, fmt.Errorf("fakefaiss: corrupt index buffer (%s, %d bytes)", what, len(buf))
	}
	if len(buf) < len(magic) || string(buf[:len(magic)]) != string(magic) {
		return bad("magic")
	}
	p := len(magic)
	fail := false
	u := func() uint64 {
		v, n := binary.Uvarint(buf[p:])
		if n <= 0 {
			fail = true
			return 0
		}
		p += n
		return v
	}
	f := func() float32 {
		if p+4 > len(buf) {
			fail = true
			return 0
		}
		v := math.Float32frombits(binary.LittleEndian.Uint32(buf[p:]))
		p += 4
		return v
	}
	c := &core{byID: map[int64]int{}}
	c.kind = int(u())
	ql := int(u())
	if fail || p+ql > len(buf) {
		return bad("quantiser")
	}
	c.quant = string(buf[p : p+ql])
	p += ql
	c.d = int(u())
	c.metric = int(u())
	c.nlist = int(u())
	c.nprobe = int32(u())
	c.directMap = int(u())
	c.trained = u() == 1
	nc := int(u())
	if fail || c.d <= 0 || nc < 0 || nc > 1<<20 {
		return bad("header")
	}
	for k := 0; k < nc; k++ {
		ce := make([]float32, c.d)
		for j := range ce {
			ce[j] = f()
		}
		c.centroids = append(c.centroids, ce)
	}
	n := int(u())
	if fail || n < 0 || n > 1<<26 {
		return bad("count")
	}
	for k := 0; k < n; k++ {
		id, m := binary.Varint(buf[p:])
		if m <= 0 {
			return bad("id")
		}
		p += m
		a := int(u())
		v := make([]float32, c.d)
		for j := range v {
			v[j] = f()
		}
		if fail {
			return bad("vector")
		}
		c.byID[id] = len(c.ids)
		c.ids = append(c.ids, id)
		c.vecs = append(c.vecs, v)
		c.assign = append(c.assign, a)
	}
	if fail || p+4 > len(buf) || string(buf[p:p+4]) != "END." {
		return bad("trailer")
	}
	c.h = mon.create("index", "ReadIndexFromBuffer")
	return &IndexImpl{c}, nil
}
