package faiss

import (
	"fmt"
	"sort"
	"sync"
)

// The monitor: every index and selector gets a handle; create / use / close
// events are recorded; double close, use after close, close during use and
// objects still alive at quiescence are reported. A fault plan makes the
// n-th call of an operation fail; an op hook lets a workload act inside an
// engine call.

type handleRec struct {
	kind    string
	origin  string
	closed  bool
	closes  int
	lastUse string
}

type monitor struct {
	mu         sync.Mutex
	next       int64
	handles    map[int64]*handleRec
	violations []string
	calls      map[string]int // calls per op since the last ResetCalls
	totals     map[string]int64
	plan       map[string]map[int]bool
	hook       func(op string, n int)
	created    int64
	closed     int64
}

var mon = &monitor{handles: map[int64]*handleRec{}, calls: map[string]int{}, totals: map[string]int64{}}

func (m *monitor) create(kind, origin string) int64 {
	m.mu.Lock()
	defer m.mu.Unlock()
	m.next++
	m.handles[m.next] = &handleRec{kind: kind, origin: origin}
	m.totals["created_"+kind]++
	if kind == "index" {
		m.created++
	}
	return m.next
}

func (m *monitor) use(h int64, op string) {
	m.mu.Lock()
	if r := m.handles[h]; r != nil {
		r.lastUse = op
	}
	m.mu.Unlock()
}

func (m *monitor) close(h int64) {
	m.mu.Lock()
	defer m.mu.Unlock()
	r := m.handles[h]
	if r == nil {
		m.violations = append(m.violations, fmt.Sprintf("close of unknown handle #%d", h))
		return
	}
	r.closes++
	r.closed = true
	m.totals["closed_"+r.kind]++
	if r.kind == "index" {
		m.closed++
	}
}

func (m *monitor) violation(s string) {
	m.mu.Lock()
	if len(m.violations) < 50 {
		m.violations = append(m.violations, s)
	}
	m.mu.Unlock()
}

func (m *monitor) count(name string, n int64) {
	m.mu.Lock()
	m.totals[name] += n
	m.mu.Unlock()
}

// call counts one call of op, runs the op hook and applies the fault plan.
func (m *monitor) call(op string) error {
	m.mu.Lock()
	m.calls[op]++
	n := m.calls[op]
	m.totals["calls_"+op]++
	fail := m.plan != nil && m.plan[op][n]
	hook := m.hook
	m.mu.Unlock()
	if hook != nil {
		hook(op, n)
	}
	if fail {
		m.count("faults_injected", 1)
		return ErrInjected
	}
	return nil
}

// ---- exported monitor API (used by the harness only)

// MonitorReset forgets closed handles, violations and per-op call counts
// (totals are kept). Live handles stay registered.
func MonitorReset() {
	mon.mu.Lock()
	defer mon.mu.Unlock()
	for h, r := range mon.handles {
		if r.closed {
			delete(mon.handles, h)
		}
	}
	mon.violations = nil
	mon.calls = map[string]int{}
}

// MonitorForgetAll drops every handle, including live ones (after a leak was reported).
func MonitorForgetAll() {
	mon.mu.Lock()
	mon.handles = map[int64]*handleRec{}
	mon.mu.Unlock()
}

// MonitorViolations returns and clears the misuse reports.
func MonitorViolations() []string {
	mon.mu.Lock()
	defer mon.mu.Unlock()
	v := mon.violations
	mon.violations = nil
	return v
}

// MonitorLive lists the handles that are still open ("kind #h from origin").
func MonitorLive(kind string) []string {
	mon.mu.Lock()
	defer mon.mu.Unlock()
	var out []string
	for h, r := range mon.handles {
		if !r.closed && (kind == "" || r.kind == kind) {
			out = append(out, fmt.Sprintf("%s #%d from %s (last use %s)", r.kind, h, r.origin, r.lastUse))
		}
	}
	sort.Strings(out)
	return out
}

// MonitorCalls returns the calls per op since the last reset.
func MonitorCalls() map[string]int {
	mon.mu.Lock()
	defer mon.mu.Unlock()
	out := make(map[string]int, len(mon.calls))
	for k, v := range mon.calls {
		out[k] = v
	}
	return out
}

// MonitorTotals returns process-lifetime totals (created/closed per kind, calls per op).
func MonitorTotals() map[string]int64 {
	mon.mu.Lock()
	defer mon.mu.Unlock()
	out := make(map[string]int64, len(mon.totals))
	for k, v := range mon.totals {
		out[k] = v
	}
	return out
}

// MonitorIndexCounts returns how many indexes were created and closed so far.
func MonitorIndexCounts() (created, closed int64) {
	mon.mu.Lock()
	defer mon.mu.Unlock()
	return mon.created, mon.closed
}

// SetFaultPlan makes the n-th call (1-based, counted from now) of each listed
// op fail with ErrInjected. nil clears the plan. Resets the per-op counts.
func SetFaultPlan(plan map[string]map[int]bool) {
	mon.mu.Lock()
	mon.plan = plan
	mon.calls = map[string]int{}
	mon.mu.Unlock()
}

// SetOpHook installs a callback run at the start of every engine operation
// (op name, ordinal since the last reset). nil removes it.
func SetOpHook(h func(op string, n int)) {
	mon.mu.Lock()
	mon.hook = h
	mon.mu.Unlock()
}
