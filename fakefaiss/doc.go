// Package faiss is a pure-Go engine double for github.com/blevesearch/go-faiss,
// used only by the verification harness under /verif (see DESIGN.md §2.5).
package faiss
