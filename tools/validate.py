#!/usr/bin/env python3
"""Validates MANIFEST.json and all evidence files against the schemas (python3-vt has jsonschema)."""
import json, glob, sys, jsonschema
ok = True
def v(path, schema):
    global ok
    try:
        jsonschema.validate(json.load(open(path)), json.load(open(schema)))
    except Exception as e:
        ok = False
        print("INVALID", path, str(e)[:300])
v('/verif/MANIFEST.json', '/root/.vp/MANIFEST.schema.json')
for f in sorted(glob.glob('/verif/evidence/*.json')):
    v(f, '/root/.vp/EVIDENCE.schema.json')
print("all valid" if ok else "FAILED")
sys.exit(0 if ok else 1)
