#!/bin/sh
# tools/verify_seed.sh <seed-out-dir> <base-commit> [vectors]
# Confirms a seeded change independently: (1) patch applies to base, (2) existing suite passes with it (private /tmp),
# (3) the demonstration fails with it, (4) the demonstration passes without it.  Prints a JSON line.
out=$(readlink -f "$1"); base=$2; vec=$3
export GOFLAGS=-mod=mod GOPROXY=off GOSUMDB=off GOTOOLCHAIN=local
name=$(basename "$out" .out)
wt=/root/vseed/$name; priv=/root/vseed/$name.tmp
mkdir -p /root/vseed "$priv"
git -C /repo worktree remove --force "$wt" 2>/dev/null
git -C /repo worktree add -q --detach "$wt" "$base" || exit 3
tags=""
if [ -n "$vec" ]; then
  echo 'replace github.com/blevesearch/go-faiss => /verif/fakefaiss' >> "$wt/go.mod"
  tags="-tags vectors"
fi
demo_cmd=$(python3 -c "import json,sys; print(json.load(open('$out/meta.json')).get('demo_cmd',''))" 2>/dev/null)
race=""; case "$demo_cmd" in *-race*) race="-race";; esac
runpat=$(grep -ho 'func Test[A-Za-z0-9_]*' "$out/verif_seed_demo_test.go" | sed 's/func //' | tr '\n' '|' | sed 's/|$//')
run() { unshare -rm sh -c "mount --bind $priv /tmp && cd $wt && $*" ; }
cp "$out/verif_seed_demo_test.go" "$wt/"
run "go test $tags $race -count=1 -run '^($runpat)\$' . " > "$priv/demo_without.log" 2>&1; dw=$?
git -C "$wt" apply "$out/patch.diff" || { echo "{\"seed\":\"$name\",\"applies\":false}"; exit 1; }
run "go test $tags $race -count=1 -run '^($runpat)\$' . " > "$priv/demo_with.log" 2>&1; dc=$?
if [ $dc -eq 0 ] && [ -n "$race" ]; then  # racy demos: a few more tries
  for i in 1 2 3; do run "go test $tags $race -count=1 -run '^($runpat)\$' . " > "$priv/demo_with.log" 2>&1; dc=$?; [ $dc -ne 0 ] && break; done
fi
rm -f "$wt/verif_seed_demo_test.go"
run "go test -count=1 -vet=off ./... " > "$priv/suite_with.log" 2>&1; sw=$?
echo "{\"seed\":\"$name\",\"base\":\"$base\",\"applies\":true,\"suite_passes_with_change\":$([ $sw -eq 0 ] && echo true || echo false),\"demo_fails_with_change\":$([ $dc -ne 0 ] && echo true || echo false),\"demo_passes_without_change\":$([ $dw -eq 0 ] && echo true || echo false),\"demo_run\":\"go test $tags $race -count=1 -run '^($runpat)\$' .\"}"
git -C /repo worktree remove --force "$wt"
rm -rf "$priv"
