#!/usr/bin/env python3
"""tools/confirm_in_repo.py [tier] <seed-id...|ALL>
Official confirmation pass: applies each kept change to /repo itself (git -C /repo apply), runs the check of its
property (or its run_checks) from /verif against /repo, and undoes it straight afterwards (git -C /repo checkout -- .).
Nothing else may build from /repo while this runs.  Results go to seeded/<id>/meta.json under "in_repo" and to stdout."""
import json, os, subprocess, sys, glob
tier = 'quick'
args = sys.argv[1:]
if args and args[0] in ('quick', 'thorough'):
    tier = args.pop(0)
ids = sorted(os.path.basename(d.rstrip('/')) for d in glob.glob('/verif/seeded/*/')) if args == ['ALL'] else args
def clean():
    st = subprocess.run(['git', '-C', '/repo', 'status', '--porcelain'], capture_output=True, text=True).stdout.strip()
    return st == ''
assert clean(), '/repo is not clean'
bad = 0
for sid in ids:
    d = f'/verif/seeded/{sid}/'
    meta = json.load(open(d + 'meta.json'))
    a = subprocess.run(['git', '-C', '/repo', 'apply', d + 'patch.diff'], capture_output=True, text=True)
    if a.returncode != 0:
        print(sid, 'patch does not apply', a.stderr.strip()[:100]); bad += 1; continue
    try:
        verdicts = {}
        for prop in meta.get('run_checks', [meta['property']]):
            p = subprocess.run(['./check', prop, tier], cwd='/verif', capture_output=True, text=True)
            out = p.stdout + p.stderr
            v = 'caught' if ('VIOLATION' in out or 'violation(s)' in out) else 'inconclusive' if 'INCONCLUSIVE' in out else 'MISSED' if 'held on' in out else 'error'
            verdicts[prop] = v + f' (exit {p.returncode})'
    finally:
        subprocess.run(['git', '-C', '/repo', 'checkout', '--', '.'], check=True)
        assert clean()
    ok = any(v.startswith('caught') for v in verdicts.values())
    bad += 0 if ok else 1
    meta['in_repo'] = {'tier': tier, 'verdicts': verdicts}
    json.dump(meta, open(d + 'meta.json', 'w'), indent=1)
    print(sid, verdicts, flush=True)
print('not caught:', bad)
