#!/usr/bin/env python3
"""Compares the minimum-observation thresholds with what sweeps observed: tools/calib.py <tier> <evidence-glob>"""
import json,glob,sys,re,collections
tier=sys.argv[1]; pat=sys.argv[2]
mins=json.load(open('/tmp/mins.json'))
obs=collections.defaultdict(lambda: collections.defaultdict(list))
for f in glob.glob(pat):
    e=json.load(open(f))
    if e['tier']!=tier: continue
    for k,v in e['coverage']['observed'].items():
        obs[e['property_id']][k].append(v)
for p in sorted(mins):
    for k,m in sorted(mins[p][tier].items()):
        vals=obs[p].get(k,[])
        lo=min(vals) if vals else None
        flag='' if (lo is not None and lo>=3*m) else '  <-- tight' 
        print(f"{p} {k}: min={m} observed={vals}{flag}")
