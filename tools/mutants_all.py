#!/usr/bin/env python3
"""Runs every kept seeded change against the quick (or given) check of its property on a scratch worktree of /repo HEAD + patch,
records the outcome in seeded/<id>/meta.json and rewrites SENSITIVITY.md."""
import json, os, subprocess, sys, glob, re
tier = sys.argv[1] if len(sys.argv) > 1 else "quick"
only = sys.argv[2:] 
rows = []
for d in sorted(glob.glob('/verif/seeded/*/')):
    sid = os.path.basename(d.rstrip('/'))
    if only and sid not in only: continue
    meta = json.load(open(d + 'meta.json'))
    head = subprocess.run(['git', '-C', '/repo', 'rev-parse', '--short', 'HEAD'], capture_output=True, text=True).stdout.strip()
    # run_checks: the checks to run for this seed (default: the check of its own property; a seed whose
    # effect lies in another property's domain names that property's check as well)
    for prop in meta.get('run_checks', [meta['property']]):
        p = subprocess.run(['/verif/tools/mutant.sh', d + 'patch.diff', prop, tier], capture_output=True, text=True, env=dict(os.environ, TAILN='6'))
        out = p.stdout + p.stderr
        if 'PATCH-DOES-NOT-APPLY' in out:
            verdict = 'patch does not apply to HEAD'
        elif 'VIOLATION' in out or 'violation(s)' in out:
            verdict = 'caught'
        elif 'INCONCLUSIVE' in out:
            verdict = 'inconclusive'
        elif 'held on' in out:
            verdict = 'MISSED'
        else:
            verdict = 'error'
        m = re.search(r'by class: map\[(.*?)\]', out)
        classes = m.group(1) if m else ''
        meta['checks_run'] = [r for r in meta.get('checks_run', []) if not (r.get('check') == prop and r.get('tier') == tier)]
        meta['checks_run'].append({"check": prop, "tier": tier, "tree": f"/repo {head} + patch (scratch worktree)", "verdict": verdict, "violation_classes": classes})
        json.dump(meta, open(d + 'meta.json', 'w'), indent=1)
        rows.append((sid, prop, verdict, classes, meta.get('summary') or ''))
        print(sid, verdict, prop, classes, flush=True)

# ---- SENSITIVITY.md from all meta.json files
lines = ["# Sensitivity: independently seeded changes vs the checks", "",
 "Each row is a change produced by a sub-agent that saw only the property text and a scratch worktree (never /verif),",
 "re-verified with tools/verify_seed.sh (suite passes with it; demonstration fails with it and passes without it),",
 "then run against the property's check on a scratch worktree of /repo HEAD + patch (tools/mutant.sh).", "",
 "| seed | property | verdict (tier) | violation classes | what the change does | what it needs to manifest |", "|---|---|---|---|---|---|"]
for d in sorted(glob.glob('/verif/seeded/*/')):
    sid = os.path.basename(d.rstrip('/'))
    m = json.load(open(d + 'meta.json'))
    runs = m.get('checks_run', [])
    v = '; '.join(f"{r['verdict']} ({r['check']} {r['tier']})" for r in runs) or 'not run'
    cl = '; '.join(r.get('violation_classes', '') for r in runs)[:160]
    def cell(x): return (x or '').replace('|', '/').replace('\n', ' ')[:420]
    lines.append(f"| {sid} | {m['property']} | {v} | {cl} | {cell(m.get('summary'))} | {cell(m.get('needs_to_manifest'))} |")
open('/verif/SENSITIVITY.md', 'w').write('\n'.join(lines) + '\n')
