#!/usr/bin/env python3
"""Runs every kept seeded change against the quick (or given) check of its property on a scratch worktree of /repo HEAD + patch,
records the outcome in seeded/<id>/meta.json and rewrites SENSITIVITY.md."""
import json, os, subprocess, sys, glob, re
tier = sys.argv[1] if len(sys.argv) > 1 else "quick"
only = sys.argv[2:] 
rows = []
for d in sorted(glob.glob('/verif/seeded/*/')):
    sid = os.path.basename(d.rstrip('/'))
    if only and sid not in only: continue
    meta = json.load(open(d + 'meta.json'))
    prop = meta['property']
    p = subprocess.run(['/verif/tools/mutant.sh', d + 'patch.diff', prop, tier], capture_output=True, text=True, env=dict(os.environ, TAILN='6'))
    out = p.stdout + p.stderr
    if 'PATCH-DOES-NOT-APPLY' in out:
        verdict = 'patch does not apply to HEAD'
    elif 'VIOLATION' in out or 'violation(s)' in out:
        verdict = 'caught'
    elif 'INCONCLUSIVE' in out:
        verdict = 'inconclusive'
    elif 'held on' in out:
        verdict = 'MISSED'
    else:
        verdict = 'error'
    m = re.search(r'by class: map\[(.*?)\]', out)
    classes = m.group(1) if m else ''
    head = subprocess.run(['git', '-C', '/repo', 'rev-parse', '--short', 'HEAD'], capture_output=True, text=True).stdout.strip()
    meta['checks_run'] = [r for r in meta.get('checks_run', []) if not (r.get('check') == prop and r.get('tier') == tier)]
    meta['checks_run'].append({"check": prop, "tier": tier, "tree": f"/repo {head} + patch (scratch worktree)", "verdict": verdict, "violation_classes": classes})
    json.dump(meta, open(d + 'meta.json', 'w'), indent=1)
    rows.append((sid, prop, verdict, classes, meta.get('summary') or ''))
    print(sid, verdict, classes, flush=True)
