#!/usr/bin/env python3
"""tools/mechmut.py gen <per-property> <seed>   -> mechmut/plan.jsonl   (mechanical one-token mutants in the anchor files)
   tools/mechmut.py run [jobs] [only-ids...]   -> mechmut/results.jsonl (resumable)
   tools/mechmut.py report                      -> mechmut/REPORT.md

A mechanical mutant is a one-token change (relational / logical operator, +-1, dropped reset statement,
continue<->break) in a non-test source file that a property names as an anchor.  Each is applied to a scratch
worktree of /repo HEAD (never /repo itself); the pinned suite is run first (private /tmp), then the quick checks of
every property that names the file, until one reports a violation.  Survivors of both are triaged by hand:
equivalent / outside every property / a gap in the checks."""
import json, os, re, random, subprocess, sys, hashlib, threading, glob, shutil

V = '/verif'
OUT = V + '/mechmut'
ENV = dict(os.environ, GOFLAGS='-mod=mod', GOPROXY='off', GOSUMDB='off', GOTOOLCHAIN='local')
VECFILES = {'section_faiss_vector_index.go', 'faiss_vector_posting.go', 'faiss_vector_cache.go', 'faiss_vector_wrapper.go', 'faiss_vector_io.go'}

OPS = [
    ('rel', r'<=', '<'), ('rel', r'>=', '>'),
    ('rel', r'(?<![<>=!\-])<(?![=<\-])', '<='), ('rel', r'(?<![<>=!\-])>(?![=>])', '>='),
    ('eq', r'==', '!='), ('eq', r'!=', '=='),
    ('logic', r'&&', '||'), ('logic', r'\|\|', '&&'),
    ('arith', r'\s\+ 1\b', ''), ('arith', r'\s- 1\b', ''), ('arith', r'\+\+', '--'), ('arith', r'\+=', '-='),
    ('flow', r'\bcontinue\b', 'break'), ('flow', r'\bbreak\b', 'continue'),
    ('const', r'\btrue\b', 'false'), ('const', r'\bfalse\b', 'true'),
]
DROP = re.compile(r'^\s*[\w\.\[\]\(\)\*]+ = [\w\.\[\]]+\[:0\]\s*$|^\s*[\w\.\[\]]+\.Reset\(\)\s*$|^\s*[\w\.\[\]]+ = (nil|0|false)\s*$|^\s*[\w\.]+\.Clear\(\)\s*$|^\s*delete\(.*\)\s*$')


def props():
    ps = {}
    for l in open(V + '/properties.jsonl'):
        p = json.loads(l)
        ps[p['id']] = [f for f in p['anchors']['files'] if f.endswith('.go')]
    return ps


def candidates(path):
    out = []
    lines = open(path).read().split('\n')
    in_block_comment = False
    for i, ln in enumerate(lines):
        s = ln.strip()
        if in_block_comment:
            if '*/' in s:
                in_block_comment = False
            continue
        if s.startswith('/*'):
            in_block_comment = '*/' not in s
            continue
        if not s or s.startswith('//') or s.startswith('import') or s.startswith('package') or s.startswith('"'):
            continue
        code = ln.split('//')[0] if '"' not in ln else ln
        if DROP.match(code):
            out.append((i, 'drop', 0, 0, ''))
        for kind, pat, rep in OPS:
            for m in re.finditer(pat, code):
                # skip things inside string literals (rough)
                if code[:m.start()].count('"') % 2 == 1:
                    continue
                out.append((i, kind, m.start(), m.end(), rep))
    return out, lines


def gen(per, seed):
    rng = random.Random(seed)
    os.makedirs(OUT, exist_ok=True)
    ps = props()
    seen = set()
    plan = []
    for pid, files in ps.items():
        cands = []
        for f in files:
            p = '/repo/' + f
            if not os.path.exists(p):
                continue
            cs, lines = candidates(p)
            cands += [(f, c, lines) for c in cs]
        rng.shuffle(cands)
        # error-check flips are killed by any test: keep few of them; size accounting is outside every property
        cands = [c for c in cands if not (re.search(r'\berr [!=]= nil', c[2][c[1][0]]) and rng.random() < 0.9)]
        cands = [c for c in cands if not re.search(r'sizeInBytes|bytesRead|BytesRead|BytesWritten|incrementBytes', c[2][c[1][0]])]
        # round-robin over the anchor files
        byf = {}
        for c in cands:
            byf.setdefault(c[0], []).append(c)
        cands = []
        while any(byf.values()):
            for f in sorted(byf):
                if byf[f]:
                    cands.append(byf[f].pop())
        n = 0
        for f, (i, kind, a, b, rep), lines in cands:
            key = (f, i, kind, a)
            if key in seen:
                continue
            seen.add(key)
            before = lines[i]
            after = '' if kind == 'drop' else before[:a] + rep + before[b:]
            if kind == 'drop':
                after = re.match(r'^\s*', before).group(0) + '// (statement dropped)'
            mid = 'M' + hashlib.sha1(f'{f}:{i}:{kind}:{a}'.encode()).hexdigest()[:8]
            plan.append({'id': mid, 'for': pid, 'file': f, 'line': i + 1, 'kind': kind, 'before': before.strip(), 'after': after.strip(), 'col': a, 'end': b, 'rep': rep})
            n += 1
            if n >= per:
                break
    with open(OUT + '/plan.jsonl', 'a') as fh:
        for m in plan:
            fh.write(json.dumps(m) + '\n')
    print(len(plan), 'mutants planned')


def sh(cmd, **kw):
    return subprocess.run(cmd, shell=True, capture_output=True, text=True, errors='replace', env=ENV, **kw)


def verdict_of(out):
    if 'VIOLATION' in out or 'violation(s)' in out:
        return 'caught'
    if 'INCONCLUSIVE' in out:
        return 'inconclusive'
    if 'held on' in out:
        return 'held'
    return 'error'


lock = threading.Lock()


def run_one(m, ps):
    wt = '/root/mm/' + m['id']
    priv = wt + '.tmp'
    res = dict(m)
    sh(f'git -C /repo worktree remove --force {wt}; rm -rf {wt} {priv}; mkdir -p /root/mm {priv}')
    r = sh(f'git -C /repo worktree add -q --detach {wt} HEAD')
    try:
        path = f"{wt}/{m['file']}"
        lines = open(path).read().split('\n')
        i = m['line'] - 1
        if lines[i].strip() != m['before']:
            res['status'] = 'stale'
            return res
        if m['kind'] == 'drop':
            lines[i] = re.match(r'^\s*', lines[i]).group(0) + '// (statement dropped)'
        else:
            lines[i] = lines[i][:m['col']] + m['rep'] + lines[i][m['end']:]
        open(path, 'w').write('\n'.join(lines))
        res['diff'] = sh(f'git -C {wt} diff').stdout
        vec = m['file'] in VECFILES
        if not vec:
            b = sh(f'cd {wt} && go build ./...')
            if b.returncode != 0:
                res['status'] = 'does-not-compile'
                return res
            s = sh(f"unshare -rm sh -c 'mount --bind {priv} /tmp && cd {wt} && go test -count=1 -vet=off ./... '", timeout=1500)
            res['suite'] = 'pass' if s.returncode == 0 else 'fail'
            if s.returncode != 0:
                res['status'] = 'killed-by-suite'
                return res
        else:
            res['suite'] = 'n/a (vectors tag)'
        checks = [pid for pid, files in ps.items() if m['file'] in files]
        # the property the mutant was drawn for first, then the others
        checks.sort(key=lambda c: (c != m['for'], c))
        res['checks'] = {}
        res['status'] = 'survived'
        for c in checks:
            o = sh(f'cd {V} && VERIF_REPO_DIR={wt} VERIF_OUT_DIR=/root/mm/out-{m["id"]} timeout 1500 ./check {c} quick 2>&1 | tail -6')
            v = verdict_of(o.stdout + o.stderr)
            res['checks'][c] = v
            if v == 'error':
                res['detail'] = (o.stdout + o.stderr)[-600:]
                if 'does not compile' in res['detail'] or 'build failed' in res['detail'] or '[build failed]' in res['detail']:
                    res['status'] = 'does-not-compile'
                    break
            if v == 'caught':
                cl = re.search(r'by class: map\[(.*?)\]', o.stdout)
                res['status'] = 'caught'
                res['caught_by'] = c
                res['classes'] = cl.group(1) if cl else ''
                break
        return res
    finally:
        sh(f'git -C /repo worktree remove --force {wt}; rm -rf {wt} {priv} /root/mm/out-{m["id"]}')
        h = hashlib.sha256(wt.encode()).hexdigest()[:8]
        for f in glob.glob(f'{V}/.build/*-{h}*'):
            try:
                os.remove(f)
            except OSError:
                shutil.rmtree(f, ignore_errors=True)


def run(jobs, only):
    ps = props()
    plan = [json.loads(l) for l in open(OUT + '/plan.jsonl')]
    done = set()
    if os.path.exists(OUT + '/results.jsonl'):
        done = {json.loads(l)['id'] for l in open(OUT + '/results.jsonl')}
    todo = [m for m in plan if m['id'] not in done and (not only or m['id'] in only)]
    it = iter(todo)

    def worker():
        while True:
            with lock:
                m = next(it, None)
            if m is None:
                return
            try:
                res = run_one(m, ps)
            except Exception as e:  # noqa
                res = dict(m, status='harness-error', detail=str(e)[:300])
            with lock:
                with open(OUT + '/results.jsonl', 'a') as fh:
                    fh.write(json.dumps(res) + '\n')
                print(res['id'], res['file'], res['line'], res['kind'], res.get('status'), res.get('caught_by', ''), flush=True)
    ts = [threading.Thread(target=worker) for _ in range(jobs)]
    [t.start() for t in ts]
    [t.join() for t in ts]


def cell(x):
    return x.replace('|', '¦')


def report():
    rs = {}
    for l in open(OUT + '/results.jsonl'):
        r = json.loads(l)
        rs[r['id']] = r
    triage = {}
    if os.path.exists(OUT + '/triage.json'):
        triage = json.load(open(OUT + '/triage.json'))
    by = {}
    for r in rs.values():
        by.setdefault(r['status'], []).append(r)
    L = ['# Mechanical one-token mutants in the anchor files', '',
         'Generated by tools/mechmut.py (see its header). Each mutant ran against the pinned suite and then against the quick checks of',
         'every property that names the mutated file, on a scratch worktree of /repo HEAD.', '',
         '| outcome | count |', '|---|---|']
    for k in sorted(by):
        L.append(f'| {k} | {len(by[k])} |')
    L += ['', '## Survivors of suite and checks, with triage', '', '| id | file:line | change | checks run | triage |', '|---|---|---|---|---|']
    for r in sorted(by.get('survived', []), key=lambda r: (r['file'], r['line'])):
        t = triage.get(r['id'], 'not triaged')
        L.append(f"| {r['id']} | {r['file']}:{r['line']} | `{cell(r['before'][:70])}` -> `{cell(r['after'][:70])}` | {' '.join(f'{c}:{v}' for c, v in r.get('checks', {}).items())} | {t} |")
    L += ['', '## Caught by a check (suite passed)', '', '| id | file:line | change | caught by | classes |', '|---|---|---|---|---|']
    for r in sorted(by.get('caught', []), key=lambda r: (r['file'], r['line'])):
        L.append(f"| {r['id']} | {r['file']}:{r['line']} | `{cell(r['before'][:60])}` -> `{cell(r['after'][:60])}` | {r['caught_by']} | {r.get('classes', '')[:80]} |")
    open(OUT + '/REPORT.md', 'w').write('\n'.join(L) + '\n')
    print({k: len(v) for k, v in by.items()})


def patch(mid):
    """print the mutant as a unified diff against /repo HEAD (for tools/mutant.sh)"""
    m = [json.loads(l) for l in open(OUT + '/plan.jsonl') if json.loads(l)['id'] == mid][0]
    src = subprocess.run(['git', '-C', '/repo', 'show', 'HEAD:' + m['file']], capture_output=True, text=True).stdout
    lines = src.split('\n')
    i = m['line'] - 1
    assert lines[i].strip() == m['before'], 'stale'
    if m['kind'] == 'drop':
        lines[i] = re.match(r'^\s*', lines[i]).group(0) + '// (statement dropped)'
    else:
        lines[i] = lines[i][:m['col']] + m['rep'] + lines[i][m['end']:]
    import tempfile
    d = tempfile.mkdtemp()
    os.makedirs(d + '/a'); os.makedirs(d + '/b')
    open(f"{d}/a/{m['file']}", 'w').write(src)
    open(f"{d}/b/{m['file']}", 'w').write('\n'.join(lines))
    o = subprocess.run(['diff', '-u', f"a/{m['file']}", f"b/{m['file']}"], cwd=d, capture_output=True, text=True).stdout
    shutil.rmtree(d)
    sys.stdout.write(o)


if __name__ == '__main__':
    if sys.argv[1] == 'patch':
        patch(sys.argv[2])
    elif sys.argv[1] == 'gen':
        gen(int(sys.argv[2]), int(sys.argv[3]))
    elif sys.argv[1] == 'run':
        run(int(sys.argv[2]) if len(sys.argv) > 2 else 3, sys.argv[3:])
    else:
        report()
