#!/bin/sh
# tools/sweep.sh <tier> <seed...> : run every check at the given seeds; print verdict lines and wall time
tier=$1; shift
cd "$(dirname "$0")/.."
export VERIF_DIR=$(pwd)
for seed in "$@"; do
  for p in C01 C02 C03 C04 C05 C06 C07 C08 C09 C10 C11 C12 C13 C14 C15 C16 C17 C18 C19 C20; do
    s=$(date +%s)
    out=$(VERIF_SEED=$seed ./check $p $tier 2>&1 | grep -E "held on|VIOLATION|INCONCLUSIVE|violation\(s\)|KNOWN" | head -3 | tr '\n' ';')
    e=$(date +%s)
    echo "seed=$seed $p $((e-s))s $out"
    cp evidence/$p.json /tmp/ev-$p-$seed.json 2>/dev/null
  done
done
