#!/usr/bin/env python3
"""Regenerates /verif/MANIFEST.json from the table below (keeps it schema-valid)."""
import json, os, subprocess, sys
V = os.path.dirname(os.path.dirname(os.path.abspath(__file__)))

CHECKS = {
 "C01": ("exploration", "runtime monitoring: full-surface postings oracle (reference model) over seeded batches x chunk modes",
         "Every (field, term) answer of every generated batch is compared hit by hit with a zapx-independent reference model, across all chunk-mode classes and both build tags; exploration with measured coverage is the strongest level a runtime monitor reaches for an all-inputs property.", "§3 C01"),
 "C02": ("exploration", "runtime monitoring: stored/ids oracle with exhaustive early-stop positions per document",
         "Stored values, early termination at every callback position, DocID and DocNumbers (present/absent/above-max ids) are compared with the model on every document of every generated batch.", "§3 C02"),
 "C03": ("exploration", "runtime monitoring: doc-value oracle under six visit disciplines x chunk sizes x segment provenance",
         "Doc-value callbacks are compared as sets with the model for ascending/descending/random/fresh/subset/cross-segment visiting, chunk sizes 1..1024, in-memory, re-opened and merged segments.", "§3 C03"),
 "C04": ("exploration", "runtime monitoring: differential full-surface oracle + byte equality + independent footer/CRC parse",
         "Persist vs WriteTo bytes, an independent footer parse with recomputed CRC-32 and the complete query surface of the in-memory and re-opened segment are checked against the model for every generated batch.", "§3 C04"),
 "C05": ("exploration", "runtime monitoring: model-merge oracle (renumbering, stored, ids, size) over seeded merge plans",
         "Renumbering maps, Count, reported size, footer and the stored/id surface of every merge output are compared with a zapx-independent merge model over seeded plans that force the byte-copy path, the re-encode path, empty inputs, nothing-survives and merge chains.", "§3 C05"),
 "C06": ("exploration", "runtime monitoring: model-merge oracle (postings, dictionary, doc values) over seeded merge plans",
         "Every posting (freq, norm, locations with source-field names), dictionary entry and doc-value set of every merge output is compared with the merge model, over plans covering merged-of-merged inputs, single-hit entries read and produced, terms spread over several inputs and several doc-value chunk sizes.", "§3 C06"),
 "C08": ("exploration", "runtime monitoring: dictionary-iteration oracle with harness-side automaton stepping over built/opened/merged/re-merged segments",
         "Term sequences and per-entry counts of AutomatonIterator are compared with the model for six automaton families x key ranges x four provenances; acceptance is decided by stepping the automaton in the harness, independently of the FST walk.", "§3 C08"),
 "C13": ("exploration", "runtime monitoring: model-merge oracle for thesauri over seeded merge plans with synonym documents",
         "Thesaurus term lists and (synonym, document) pair sets under exclusion bitmaps of every merge output are compared with the merge model; classes counted: thesaurus in several inputs, in some inputs only, all definitions deleted, merged-of-merged.", "§3 C13"),
 "C07": ("exploration", "runtime monitoring: bounded-exhaustive enumeration of postings sets, exclusions, flags and Next/Advance call paths + random reuse histories",
         "For N<=5 (quick) / N<=7 (thorough) every (P, E, chunk size, detail flags, encoding, residence) and every complete Next/Advance call path is executed on the real iterator (fresh and recycled objects) and compared with the model; larger random instances cover modes 1025/1026 and preallocation-reuse histories. Exhaustive up to the bound, exploration beyond it.", "§3 C07"),
 "C10": ("exploration", "runtime monitoring: build histories on the pooled builder (reuse measured by hook) + concurrent builds under the race detector, full-surface oracle per build",
         "Every segment of seeded 8-14 build histories (all ordered pairs of batch kinds, validator rejections, empty batches) is checked against its own batch on the full query surface; builder reuse is measured through a verif hook; the same histories run from 4-16 goroutines under the race detector.", "§3 C10"),
 "C11": ("exploration", "runtime monitoring: race detector + per-call equality with precomputed sequential answers + visitor-stability monitor over concurrent reader programs",
         "4-32 goroutines run seeded reader programs (postings, stored visits incl. early-stopping and blocking visitors, ids, doc values, thesauri, merges) over fresh shared segments; every answer is compared with the sequential answer, bytes handed to visitors are re-checked after yielding, and the race detector observes all zapx accesses.", "§3 C11"),
 "C12": ("exploration", "runtime monitoring: thesaurus oracle (term lists, pair sets under exclusion bitmaps, prealloc reuse) over seeded synonym batches",
         "For every thesaurus, term and exclusion bitmap of every generated batch the exact set of (synonym, document) pairs is compared with the model, in memory and after persist+open.", "§3 C12"),
 "C17": ("fault_enumeration", "runtime monitoring with fault injection: failing io.Writer at every byte offset; RLIMIT_FSIZE window at every offset / flush boundary for Persist and Merge",
         "Write failures are injected at every byte offset (WriteTo) and at every offset or flush-boundary class (Persist, Merge with shrunk buffers) of the outputs of seeded inputs; each faulted run must return an error and leave no file, each unfaulted run a complete file. Enumeration of the fault points of the explored inputs, not of all inputs.", "§3 C17"),
 "C18": ("fault_enumeration", "runtime monitoring with cancellation injected inside every write callback of Merge (logical time) + scheduled closes under the race detector",
         "For every seeded merge plan the close channel is closed before the call and inside each of the W write callbacks (repeated sweeps, since section order varies); each point must end as (closed error, no file) or (success, complete correct file).", "§3 C18"),
 "C20": ("exploration", "runtime monitoring: exhaustive balanced AddRef/DecRef/Close sequences with /proc inspection and reads between operations + concurrent holders under the race detector",
         "Every balanced reference sequence up to the bound is executed on a freshly opened file with reads between operations and /proc/self/maps + /proc/self/fd inspected after each step; concurrent holders release under the race detector. Exhaustive for part A up to the bound.", "§3 C20"),
 "C14": ("exploration", "runtime monitoring against an engine double: vector-search oracle (true scores, exclusion, eligibility, exact top-k with boundary ties) over seeded vector batches",
         "Every search result is compared with a brute-force model using the engine double's own scoring function; flat indexes are held to exact top-k, clustered ones to the weaker clause; engine: double (native FAISS is not installed), so zapx's id mapping, exclusion, selector choice and top-k plumbing are what is decided.", "§3 C14, §2.5"),
 "C15": ("exploration", "runtime monitoring against an engine double: model-merge oracle for vector fields + engine lifetime monitor over seeded merge plans",
         "C14's oracle is applied to every merge output against the merge model (survivors' vectors renumbered, deleted ones gone, no index for emptied fields); the engine registry checks that every native index created by a plan is released exactly once.", "§3 C15, §2.5"),
 "C16": ("exploration", "runtime monitoring: exhaustive bounded event histories over the vector cache (open/search/close/expire via verif hook) with per-search oracle and engine lifetime monitor + concurrent stress under the race detector",
         "Every open/search/close/expire history up to the bound, for every ordered pair of exclusion sets, is executed on a fresh segment; each search must equal the history-free answer; the engine double's registry reports use-after-close, close-during-use, double close and leaks. Exhaustive for part A up to the bound.", "§3 C16, §2.5"),
 "C19": ("fault_enumeration", "runtime monitoring with engine fault injection: the n-th call of every engine operation made to fail, for every n of the fault-free run",
         "For every build and merge scenario each engine call is failed in turn; the operation must return an error (no file for merges) or else produce a segment that passes the full vector oracle; the registry checks that nothing is leaked.", "§3 C19, §2.5"),
 "C09": ("translation_validation", "runtime monitoring: per-file validation of the writer by an independent v16 decoder (forward) + frozen corpus of the pinned release re-read by the current code (backward)",
         "Every file written during the check is decoded by a reader that does not share code with zapx and compared with the model (validation of the writer per file); 38 frozen files written by the pinned commit are re-opened by the current code and compared on the full query surface, so a symmetric writer+reader change is caught in both directions.", "§3 C09"),
}
NOT_YET = {}

def main():
    props = [json.loads(l) for l in open(os.path.join(V, "properties.jsonl"))]
    checks = []
    na = []
    for p in props:
        pid = p["id"]
        if pid in CHECKS:
            level, tech, text, ref = CHECKS[pid]
            checks.append({
                "property_id": pid,
                "quick_cmd": f"./check {pid} quick",
                "thorough_cmd": f"./check {pid} thorough",
                "evidence_file": f"/verif/evidence/{pid}.json",
                "replay_cmd_template": f"./check {pid} --replay {{path}}",
                "engine": "vcheck",
                "level_claimed": {"category": level, "text": text, "design_ref": "DESIGN.md " + ref},
                "level_note": "trusted base: the harness reference model and generators (harness/model), Go runtime + race detector, vellum/roaring/snappy; inputs restricted to the domain of DESIGN.md §2.3",
                "technique": tech,
            })
        else:
            na.append({"property_id": pid, "reason": NOT_YET.get(pid, "check not built yet (work in progress in this session); not claimed until its monitor exists")})
    hooks = []
    hp = os.path.join(V, "hook_commits.txt")
    if os.path.exists(hp):
        hooks = [l.split()[0] for l in open(hp) if l.strip()]
    m = {
        "version": 1,
        "setup_cmd": "cd /verif && export GOFLAGS=-mod=mod GOPROXY=off GOSUMDB=off GOTOOLCHAIN=local && mkdir -p .build && (cd harness && go build -o ../.build/vcheck ./cmd/vcheck && go build -tags verif -o ../.build/worker-plain ./worker && go build -tags verif,vectors -o ../.build/worker-vec ./worker)",
        "hooks": {
            "guard": "verif",
            "enable": "go build -tags verif[,vectors] (workers are built by vcheck from /repo's working tree through harness/go.mod `replace github.com/blevesearch/zapx/v16 => /repo`)",
            "baseline_off_cmd": "cd /repo && GOFLAGS=-mod=mod GOPROXY=off GOSUMDB=off go test -json -vet=off -count=1 -timeout 25m ./...",
            "source_commits": hooks,
            "add_only": True,
        },
        "engines": [
            {"name": "vcheck", "path": "/verif/harness/cmd/vcheck", "serves_properties": sorted(CHECKS), "kind_free_text": "orchestrator: builds worker flavours (plain / -race / vectors) from /repo, runs workloads as child processes under a watchdog, applies oracles and known findings, writes evidence"},
            {"name": "fakefaiss", "path": "/verif/fakefaiss", "serves_properties": ["C14", "C15", "C16", "C19"], "kind_free_text": "pure-Go engine double + lifetime monitor substituted for go-faiss (native library absent)"},
        ],
        "checks": checks,
        "not_applicable": na,
        "notes": "All checks are runtime monitors over executions of the real zapx code (DESIGN.md). Exit 0 held / 1 VIOLATION / 2 inconclusive. VERIF_SEED selects the seed, VERIF_REPO_DIR an alternative zapx tree (sensitivity runs).",
    }
    if not na:
        del m["not_applicable"]
    json.dump(m, open(os.path.join(V, "MANIFEST.json"), "w"), indent=1)
    print("wrote MANIFEST.json:", len(checks), "checks,", len(na), "not claimed")

main()
