#!/bin/sh
# tools/mutant.sh <patch.diff> <prop> [tier]  — run a check against a scratch worktree of /repo HEAD + patch
# (never touches /repo itself; worktree and build output are removed afterwards)
set -e
patch=$(readlink -f "$1"); prop=$2; tier=${3:-quick}
name=$(echo "$patch" | md5sum | cut -c1-8)
wt=/root/mut/$name
mkdir -p /root/mut
git -C /repo worktree remove --force "$wt" 2>/dev/null || true
git -C /repo worktree add -q --detach "$wt" HEAD
trap 'git -C /repo worktree remove --force "$wt" 2>/dev/null; rm -f /verif/.build/*-$(printf %s "$wt" | sha256sum | cut -c1-8)*' EXIT
if ! git -C "$wt" apply "$patch" 2>/dev/null; then
  if ! git -C "$wt" apply -3 "$patch" 2>/dev/null; then echo "PATCH-DOES-NOT-APPLY $patch"; exit 3; fi
fi
cd /verif
VERIF_REPO_DIR="$wt" VERIF_OUT_DIR=/root/mut/out-$name ./check "$prop" "$tier" 2>&1 | tail -${TAILN:-4}
rm -rf /root/mut/out-$name
