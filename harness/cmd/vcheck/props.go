package main

// runSpec is one (workload, flavour) run split over child processes.
type runSpec struct {
	Workload string
	Flavour  string
	Shards   int
	TimeoutS int
	Env      []string
}

type propSpec struct {
	Level         string
	Rule          string
	Assumptions   []string
	ExtraCoverage map[string]interface{}
	Runs          func(tier string) []runSpec
	Min           func(tier string) map[string]int64
}

func tq(tier string, q, t int) int {
	if tier == "thorough" {
		return t
	}
	return q
}

func simple(workload string, flavours ...string) func(string) []runSpec {
	return func(tier string) []runSpec {
		var rs []runSpec
		for _, f := range flavours {
			rs = append(rs, runSpec{Workload: workload, Flavour: f, Shards: 16, TimeoutS: tq(tier, 600, 3600)})
		}
		return rs
	}
}

func mins(q, t map[string]int64) func(string) map[string]int64 {
	return func(tier string) map[string]int64 {
		if tier == "thorough" {
			return t
		}
		return q
	}
}

var commonAssumptions = []string{
	"input domain of DESIGN.md §2.3 (what bleve promises zapx): one _id per document, terms/values without 0xff, locations naming existing fields, balanced reference operations",
	"the reference model (harness/model, pure data, never calls zapx) states the intended semantics; disagreements were resolved by reading the property statement",
	"vellum, roaring and snappy are trusted third-party libraries",
}

var vecAssumptions = append([]string{
	"engine: double — go-faiss is replaced by the pure-Go engine double /verif/fakefaiss (native libfaiss_c is not installed); the engine contract is mirrored from the go-faiss wrappers; FAISS-internal numerics and the cgo boundary are not covered",
}, commonAssumptions...)

var props = map[string]*propSpec{
	"C01": {
		Level:       "exploration",
		Rule:        "seeded batches from size classes {empty,one,small,wide,deep,mid,stored,tall} over small alphabets x chunk modes {1,2,3,4,5,7,8,16,64,1023,1024,1025,1026} ∪ seeded 1..1024 x build tags {default,vectors}; every (field,term) of the model plus absent ones is queried and every hit compared; distinct = distinct (batch fingerprint, chunk mode); non-trivial = >= 2 documents and >= 1 term with >= 2 hits",
		Assumptions: commonAssumptions,
		Runs:        simple("C01", "plain", "vec"),
		Min: mins(map[string]int64{"hits_compared": 20000, "terms_spanning_chunks": 500, "terms_card_gt_1024": 2},
			map[string]int64{"hits_compared": 400000, "terms_spanning_chunks": 10000, "terms_card_gt_1024": 40}),
	},
	"C02": {
		Level:       "exploration",
		Rule:        "seeded batches (stored-heavy every 4th: repeated names, empty values, 70 kB values, array positions up to 40 long) x chunk modes; every document visited in full, at every early-stop position, DocID, DocNumbers over present/absent/neighbour/above-max/equal-max/duplicate id lists, document numbers beyond Count; in-memory and (every 5th) re-opened; distinct = batch fingerprint; non-trivial = >= 2 documents, one with >= 2 stored values",
		Assumptions: commonAssumptions,
		Runs:        simple("C02", "plain"),
		Min: mins(map[string]int64{"stored_callbacks_compared": 5000, "early_stop_positions": 3000, "idlookup_above_max": 100},
			map[string]int64{"stored_callbacks_compared": 80000, "early_stop_positions": 40000, "idlookup_above_max": 2000}),
	},
	"C03": {
		Level:       "exploration",
		Rule:        "seeded batches x doc-value chunk size (zap.LegacyChunkMode in {1,2,3,4,5,7,8,16,1024}, constant from build to read) x visit disciplines {ascending, descending with reused state, random with repeats, fresh state per visit, field subset, one state alternating between two segments} x {in-memory, re-opened, merged}; distinct = (batch pair fingerprint, chunk size); non-trivial = more documents than the chunk size and >= 2 (doc,field) pairs with doc values",
		Assumptions: commonAssumptions,
		Runs:        simple("C03", "plain"),
		Min: mins(map[string]int64{"dv_visits": 20000, "dv_chunk_switches": 3000, "dv_state_cross_segment": 1000, "dv_merged_segments": 50},
			map[string]int64{"dv_visits": 300000, "dv_chunk_switches": 40000, "dv_state_cross_segment": 15000, "dv_merged_segments": 800}),
	},
	"C04": {
		Level:       "exploration",
		Rule:        "seeded batches (with synonyms / vectors) x chunk modes x build tags: Persist vs WriteTo bytes, independent footer parse + IEEE CRC-32 over all preceding bytes, footer accessors, eight segments emitted at the same time (WriteTo and Persist, each image compared with the one the segment emitted alone), and the full query surface (postings, dictionary iteration, stored, ids, doc values, thesauri, vectors) of both the in-memory and the re-opened segment against the model; distinct = (batch fingerprint, chunk mode); non-trivial = >= 2 documents and a multi-document term",
		Assumptions: commonAssumptions,
		Runs:        simple("C04", "plain", "vec"),
		Min: mins(map[string]int64{"files_compared": 300, "footers_checked": 300, "rounds_of_simultaneous_emission": 20},
			map[string]int64{"files_compared": 5000, "footers_checked": 5000, "rounds_of_simultaneous_emission": 300}),
	},
}

func init() {
	props["C05"] = &propSpec{
		Level:       "exploration",
		Rule:        "seeded merge plans: 2-4 leaf batches (in memory or persisted+re-opened) and 1-3 merges of 1-4 inputs (leaves or earlier outputs), per-input deletion style {nil, empty bitmap, random, all-but-one, sparse, full}, output chunk mode possibly different from the inputs'; plan classes forced every run: identical field lists without drops (byte-copy path), identical with drops, different field lists, empty inputs, nothing survives, chains, tall inputs, single input, update-like; oracle: renumbering maps, Count, reported size vs stat, footer/CRC, stored fields, DocID, DocNumbers, Fields of the re-opened output against model-merge; distinct = (leaf fingerprints, mode, steps); non-trivial = an output with >= 2 survivors",
		Assumptions: commonAssumptions,
		Runs:        simple("C05", "plain"),
		Min: mins(map[string]int64{"merges": 300, "merge_inputs_bytecopy_path": 40, "merge_inputs_reencode_path": 200, "merges_nothing_survives": 20, "merges_depth_2": 30, "plans_class_tall": 8, "plans_class_tall-edge": 20, "plans_class_xwide": 10, "plans_class_empty-merged": 40},
			map[string]int64{"merges": 4000, "merge_inputs_bytecopy_path": 500, "merge_inputs_reencode_path": 2500, "merges_nothing_survives": 250, "merges_depth_2": 400}),
	}
	props["C06"] = &propSpec{
		Level:       "exploration",
		Rule:        "the merge plans of C05 (all plan classes, doc-value chunk sizes {1024,2,5,1,3}); oracle on every merge output: every (field,term) posting with freq/norm/locations, dictionary iteration with counts, doc values under all visit disciplines (one state shared between the output and an input), terms without survivors absent; distinct = (leaf fingerprints, mode, steps); non-trivial = an output with >= 2 survivors",
		Assumptions: commonAssumptions,
		Runs:        simple("C06", "plain"),
		Min: mins(map[string]int64{"merges": 300, "terms_in_2plus_inputs": 1000, "onehit_terms_produced": 500, "onehit_terms_read_from_merged_inputs": 100, "merge_inputs_bytecopy_path": 40, "merge_inputs_reencode_path": 200, "plans_class_tall": 8, "plans_class_tall-edge": 20, "plans_class_xwide": 10},
			map[string]int64{"merges": 4000, "terms_in_2plus_inputs": 15000, "onehit_terms_produced": 8000, "onehit_terms_read_from_merged_inputs": 1500, "merge_inputs_bytecopy_path": 500, "merge_inputs_reencode_path": 2500}),
	}
	props["C13"] = &propSpec{
		Level:       "exploration",
		Rule:        "the merge plans of C05 over batches with synonym documents (1-3 thesauri, explicit and equivalence definitions, shared synonyms, empty left-hand term); oracle on every merge output: thesaurus term lists, (synonym, document) pair sets under exclusion bitmaps {nil, empty, each defining doc, all}, Contains, unknown names/terms; classes counted: thesaurus in >= 2 inputs, in some inputs only, all definitions deleted, merged-of-merged",
		Assumptions: commonAssumptions,
		Runs:        simple("C13", "plain"),
		Min: mins(map[string]int64{"merges": 300, "syn_pairs_compared": 5000, "thesauri_from_2plus_inputs": 100, "thesauri_in_some_inputs_only": 50, "thesauri_all_definitions_deleted": 10, "thesauri_merged_of_merged": 20, "leaves_twin_with_thinned_synonyms": 30},
			map[string]int64{"merges": 4000, "syn_pairs_compared": 80000, "thesauri_from_2plus_inputs": 1500, "thesauri_in_some_inputs_only": 700, "thesauri_all_definitions_deleted": 150, "thesauri_merged_of_merged": 300, "leaves_twin_with_thinned_synonyms": 400}),
	}
}

func init() {
	props["C08"] = &propSpec{
		Level:       "exploration",
		Rule:        "seeded batch pairs x chunk modes x provenance {built, re-opened, merged once, merged twice (alone or with a leaf)}; for every field (and an unknown one): Cardinality, Contains of every term, and AutomatonIterator for automata {nil=all, never, exact, prefix, vellum regexp, vellum levenshtein d=1,2} x key ranges with each bound in {nil, below min, existing term, between terms, above max}, start < end; acceptance decided by stepping the automaton over the term bytes in the harness; every entry's Count compared with the model's postings size; distinct = (batch fingerprints, mode); non-trivial = >= 2 documents and a multi-document term",
		Assumptions: append([]string{"key-range bounds are nil or non-empty (an empty non-nil bound is outside the domain: bleve passes nil for 'absent')"}, commonAssumptions...),
		Runs: func(tier string) []runSpec {
			return []runSpec{
				{Workload: "C08", Flavour: "plain", Shards: 16, TimeoutS: tq(tier, 600, 3600)},
				{Workload: "C08c", Flavour: "race", Shards: 8, TimeoutS: tq(tier, 600, 3600)},
			}
		},
		Min: mins(map[string]int64{"dict_entries_checked": 100000, "dict_general_after_single": 2000, "dict_provenance_merged_twice": 100},
			map[string]int64{"dict_entries_checked": 1500000, "dict_general_after_single": 30000, "dict_provenance_merged_twice": 1500}),
	}
}

func init() {
	props["C07"] = &propSpec{
		Level:       "exploration",
		Rule:        "bounded-exhaustive part (exhaustive=true refers to it): N <= 5 (quick) / N <= 7 (thorough) documents; for every non-empty postings set P, chunk size in {1,2,3,N}, segment variant {built in memory, built+mmap, merged+mmap (single-hit where |P|=1)}, field {with locations, without}, exclusion set E ⊆ [0,N) (nil and empty bitmap both used for E=∅), detail flags {none, freq+norm, all, locs only, freq only}: every complete Next/Advance(x) call path (x strictly beyond the last returned document, up to N) until nil plus one more call, each on alternately fresh and recycled list/iterator objects; Count, ActualBitmap and DocNum1Hit compared with P∖E; ReplaceActual(S) for every S ⊆ P∖E (N <= 5); hits carry pairwise distinct freq/norm/locations. Random part: 2 segments (mid/tall, modes 1025/1026/3/1024, edge cardinalities 1023..2049) + their merge, random (field, term, E, flags) requests through 3 recycled list/iterator slots with random Next/Advance walks. distinct_nontrivial = number of (P,E,chunk,flags,field,variant) tuples walked (all have P non-empty) + distinct random instances",
		Assumptions: append([]string{"Advance targets are strictly beyond the last returned document; ReplaceActual is called on a fresh non-single-hit iterator with a subset of ActualBitmap()"}, commonAssumptions...),
		Runs: func(tier string) []runSpec {
			return []runSpec{{Workload: "C07", Flavour: "plain", Shards: 16, TimeoutS: tq(tier, 900, 7200)}}
		},
		Min: mins(map[string]int64{"c07_walks": 200000, "c07_single_hit_lists": 10, "c07_docnum1hit_seen": 10, "c07_replace_actual_subsets": 10000, "c07_random_steps": 15000, "c07_random_lists_card_gt_1024": 5},
			map[string]int64{"c07_walks": 20000000, "c07_single_hit_lists": 20, "c07_docnum1hit_seen": 20, "c07_replace_actual_subsets": 10000, "c07_random_steps": 200000, "c07_random_lists_card_gt_1024": 50}),
	}
}

func init() {
	props["C12"] = &propSpec{
		Level:       "exploration",
		Rule:        "seeded batches mixing ordinary and synonym documents (1-3 thesauri, explicit left-hand sides and equivalence groups, shared synonyms, the same term defined by several documents, empty left-hand term, 1-2 synonym fields per document) x chunk modes; for every thesaurus (+ unknown names, ordinary field names): sorted term list, a key range, Contains; for every term (+ unknown) x exclusion bitmaps {nil, empty, each defining doc, all, 3 seeded subsets}: the set of (synonym, document) pairs, alternately with fresh and recycled list/iterator objects; in memory and after persist+open; synonym fields have empty dictionaries; distinct = batch fingerprint; non-trivial = >= 2 documents and >= 1 thesaurus",
		Assumptions: commonAssumptions,
		Runs:        simple("C12", "plain", "vec"),
		Min: mins(map[string]int64{"syn_lookups": 20000, "syn_pairs_compared": 20000, "thes_terms_defined_by_2plus_docs": 200, "thes_prealloc_reuse": 5000, "syn_lookups_through_a_reused_key_buffer": 20000},
			map[string]int64{"syn_lookups": 300000, "syn_pairs_compared": 300000, "thes_terms_defined_by_2plus_docs": 3000, "thes_prealloc_reuse": 80000}),
	}
}

func init() {
	props["C10"] = &propSpec{
		Level:       "exploration",
		Rule:        "sequential part: seeded histories of 8-14 builds in one goroutine (maximises reuse of the pooled builder; reuse is measured through the verif hook) over kinds {large, small, many-fields, few-fields, synonyms, plain, vectors, empty, rejected-by-validator, one, doc-values, no-doc-values, deep} with every ordered pair of kinds forced over the cases; every produced segment is checked against its own batch on the full surface (postings, stored, ids, doc values, thesauri incl. thesaurus names of earlier batches, vectors). Concurrent part (race detector): 4/8/16 goroutines run such histories simultaneously under GOMAXPROCS 2/4/16. distinct = history fingerprint; every history is non-trivial (>= 6 builds)",
		Assumptions: append([]string{"sync.Pool is not controllable: reuse is encouraged (same goroutine) and measured, a sequential run with < 50 % recycled builds is inconclusive", "process-global knobs (chunk mode, validator) are written only between phases"}, commonAssumptions...),
		Runs: func(tier string) []runSpec {
			return []runSpec{
				{Workload: "C10", Flavour: "plain", Shards: 16, TimeoutS: tq(tier, 600, 3600)},
				{Workload: "C10", Flavour: "vec", Shards: 8, TimeoutS: tq(tier, 600, 3600)},
				{Workload: "C10c", Flavour: "race", Shards: 8, TimeoutS: tq(tier, 900, 3600)},
				{Workload: "C10c", Flavour: "vecrace", Shards: 8, TimeoutS: tq(tier, 900, 3600)},
			}
		},
		Min: mins(map[string]int64{"builds": 1500, "builds_on_recycled_builder": 800, "builds_rejected": 50, "concurrent_rounds": 20},
			map[string]int64{"builds": 25000, "builds_on_recycled_builder": 12000, "builds_rejected": 800, "concurrent_rounds": 200}),
	}
}

func init() {
	props["C11"] = &propSpec{
		Level:       "exploration",
		Rule:        "rounds of 4/8/32 goroutines under GOMAXPROCS 1/2/16 over three fresh shared segments per round (in memory, mmap, second batch; with thesauri, so lazy FST/thesaurus caches are cold and contended), each goroutine running 14 seeded operations from {postings walks, full stored visits with every early-stop position, visitor-stability monitor (copy on entry, yield, compare on exit), visitors stopping at _id / later, visitors blocking until others progressed, DocID/DocNumbers, doc values with private state, thesaurus + dictionary iteration, Merge of the shared segments checked against model-merge}; 0/1/3 early-terminated visits precede the concurrent phase (shapes the scratch pool); every answer compared with the precomputed sequential answer (the model); run under the race detector and, with 4x the rounds, without it; distinct = batch-pair fingerprint",
		Assumptions: append([]string{"a race report counts when one of its stacks contains a zapx frame; a report with only harness frames makes the run inconclusive"}, commonAssumptions...),
		Runs: func(tier string) []runSpec {
			return []runSpec{
				{Workload: "C11", Flavour: "race", Shards: 16, TimeoutS: tq(tier, 900, 3600)},
				{Workload: "C11", Flavour: "plain", Shards: 16, TimeoutS: tq(tier, 600, 3600)},
				{Workload: "C11", Flavour: "vecrace", Shards: 8, TimeoutS: tq(tier, 900, 3600)},
			}
		},
		Min: mins(map[string]int64{"concurrent_rounds": 150, "visitor_callbacks_monitored": 5000, "early_stop_visits": 3000, "op_merge": 150, "blocked_visitor_overlaps": 100},
			map[string]int64{"concurrent_rounds": 2000, "visitor_callbacks_monitored": 60000, "early_stop_visits": 40000, "op_merge": 2000, "blocked_visitor_overlaps": 1500}),
	}
}

func init() {
	props["C20"] = &propSpec{
		Level:       "exploration",
		Rule:        "part A (exhaustive=true refers to it): every sequence of AddRef/DecRef/Close on a freshly opened segment with the count positive until the last operation and at most 4 (quick) / 7 (thorough) AddRefs, i.e. length <= 9 / 15; before every operation a read sample (postings, stored fields, doc values) is compared with the model, after every operation /proc/self/maps and /proc/self/fd are inspected (unique file per sequence): mapping and exactly one descriptor present while the count is positive, none after the final release; every release must return nil. Part B (race detector): 2-16 holder goroutines (reference taken on their behalf while the owner holds its own, some nested AddRef/DecRef) read and release via DecRef or Close while the owner closes at a seeded point, GOMAXPROCS 2/4/16; afterwards the file must be unmapped and closed. In-memory segment: reads, AddRef/DecRef, Close return nil. distinct = sequences / concurrent rounds",
		Assumptions: append([]string{"reference operations are balanced and a holder only takes a reference while it is known to be positive (as scorch does)"}, commonAssumptions...),
		Runs: func(tier string) []runSpec {
			return []runSpec{
				{Workload: "C20", Flavour: "plain", Shards: 16, TimeoutS: tq(tier, 600, 3600)},
				{Workload: "C20", Flavour: "vec", Shards: 16, TimeoutS: tq(tier, 600, 3600)},
				{Workload: "C20c", Flavour: "race", Shards: 16, TimeoutS: tq(tier, 900, 3600)},
			}
		},
		Min: mins(map[string]int64{"sequences": 500, "proc_inspections": 3000, "reads_between_operations": 3000, "concurrent_release_rounds": 250},
			map[string]int64{"sequences": 3000, "proc_inspections": 25000, "reads_between_operations": 30000, "concurrent_release_rounds": 3500}),
	}
}

func init() {
	props["C17"] = &propSpec{
		Level:       "fault_enumeration",
		Rule:        "for each input (built batches of classes small/one/empty/mid/deep/stored, and merges of 2-3 segments with drops): fault-free run -> size S; WriteTo with a failing io.Writer at every byte offset 0..S-1 in two styles (error at once / short write then error); Persist and Merge under an RLIMIT_FSIZE window (SIGXFSZ ignored; the kernel fails the write crossing byte L with EFBIG) at every L in [0,S) when S <= 8 kB, else at every flush boundary +-1 plus 200 seeded offsets, with the merge buffer set to {1,16,64,4096,1 MiB}; oracle: L < S => error returned and no file at the path; L >= S or no fault => success, footer/CRC of C04 and the re-opened content equal to the model; distinct = (input fingerprint, buffer size); non-trivial = every input (each has >= 100 fault points)",
		Assumptions: append([]string{"a write failure is modelled as EFBIG from the kernel (path-based operations) or an error from the io.Writer (WriteTo); fsync/close failures are outside C17's antecedent", "the file-size limit is process-wide: fault workers are single-threaded and write their own logs only outside the window"}, commonAssumptions...),
		Runs: func(tier string) []runSpec {
			return []runSpec{{Workload: "C17", Flavour: "plain", Shards: 16, TimeoutS: tq(tier, 900, 3600)}, {Workload: "C17", Flavour: "vec", Shards: 16, TimeoutS: tq(tier, 900, 3600)}}
		},
		Min: mins(map[string]int64{"faults_writeto": 10000, "faults_persist": 5000, "faults_merge": 5000, "success_runs_checked": 40},
			map[string]int64{"faults_writeto": 100000, "faults_persist": 50000, "faults_merge": 50000, "success_runs_checked": 300}),
	}
}

func init() {
	props["C18"] = &propSpec{
		Level:       "fault_enumeration",
		Rule:        "for each seeded merge plan (1-3 inputs with doc values, synonyms, deletions; identical and different field lists): W = number of write callbacks of the uncancelled merge (the StatsReporter passed to Merge is called inside every write); the close channel is closed before the call and inside the k-th write for every k in 1..W+2, the whole sweep repeated 3 (quick) / 6 (thorough) times because sections are merged in map order; oracle per point: outcome is (closed error, no file) or (nil, complete file: footer/CRC + postings, stored, doc values, thesauri, vectors equal to model-merge), anything else is a violation; phases of the cancellation points (stored / sections / fields index / footer) are derived from byte positions; in the vectors flavour the channel is additionally closed inside the j-th engine call (read, reconstruct, factory, train, add, serialise) for every j, with the engine monitor checking that no native index is leaked. Schedule part (race detector): another goroutine closes the channel after a seeded number of yields. distinct = plan fingerprint; every plan is non-trivial (>= 40 cancellation points)",
		Assumptions: commonAssumptions,
		Runs: func(tier string) []runSpec {
			return []runSpec{
				{Workload: "C18", Flavour: "plain", Shards: 16, TimeoutS: tq(tier, 900, 3600)},
				{Workload: "C18", Flavour: "vec", Shards: 16, TimeoutS: tq(tier, 900, 3600)},
				{Workload: "C18c", Flavour: "race", Shards: 8, TimeoutS: tq(tier, 900, 3600)},
			}
		},
		Min: mins(map[string]int64{"cancellation_points": 10000, "cancel_closed": 5000, "cancel_complete": 200, "cancel_phase_stored": 500, "cancel_phase_sections": 3000, "cancel_phase_footer": 100, "cancel_phase_engine_call": 50, "schedule_rounds": 150},
			map[string]int64{"cancellation_points": 200000, "cancel_closed": 100000, "cancel_complete": 4000, "cancel_phase_stored": 10000, "cancel_phase_sections": 60000, "cancel_phase_footer": 2000, "cancel_phase_engine_call": 500, "schedule_rounds": 1900}),
	}
}

func vecRuns(workload string, shards int) func(string) []runSpec {
	return func(tier string) []runSpec {
		return []runSpec{{Workload: workload, Flavour: "vec", Shards: shards, TimeoutS: tq(tier, 900, 3600)}}
	}
}

func init() {
	props["C14"] = &propSpec{
		Level:       "exploration",
		Rule:        "seeded batches with vector fields (0..k vectors per document, several per document, duplicates across documents, L2 / dot product / cosine, three optimisation modes; sizes 1..60 documents and every 50th/60th a tall one with >= 1000 vectors => clustered index) built, persisted and re-opened; one exclusion bitmap per (segment instance, field) from {nil, empty, random third, all, one doc}, a fresh re-opened segment per configuration; queries (existing and random vectors, wrong dimension) x k in {1,3,n,n+5} x {unfiltered, eligible empty / about a quarter / most / all}; oracle: every returned (doc, score) is the true score (same Score function as the engine double) of a vector of a non-excluded, eligible document, at most k pairs, no pair twice, and for exact indexes the k best vectors with boundary ties counted; num_vectors statistic; non-vector and unknown fields empty; engine monitor quiescent after each case; distinct = batch fingerprint; non-trivial = >= 2 vectors",
		Assumptions: vecAssumptions,
		Runs:        vecRuns("C14", 16),
		Min: mins(map[string]int64{"vec_searches": 10000, "vec_searches_filtered": 5000, "vec_results_exact_topk": 5000, "vec_results_clustered": 20, "vec_fields_clustered": 2},
			map[string]int64{"vec_searches": 150000, "vec_searches_filtered": 80000, "vec_results_exact_topk": 80000, "vec_results_clustered": 500, "vec_fields_clustered": 30}),
	}
	props["C15"] = &propSpec{
		Level:       "exploration",
		Rule:        "the merge plans of C05 over batches with vector fields (all plan classes; tall plans give >= 1000 surviving vectors, i.e. reconstruct + train of a clustered index); oracle on every merge output: C14's vector oracle against model-merge (survivors' vectors under the new numbering, deleted documents' vectors gone, num_vectors, fields without surviving vectors have no index), engine monitor: no native index or selector alive and no misuse once all segments of the plan are closed; distinct = (leaf fingerprints, mode, steps); non-trivial = an output with >= 2 survivors",
		Assumptions: vecAssumptions,
		Runs:        vecRuns("C15", 16),
		Min: mins(map[string]int64{"merges": 300, "vec_searches": 5000, "engine_quiescence_checks": 300, "plans_class_tall": 8, "vec_results_clustered": 20, "leaves_with_9500_or_more_documents_and_vectors": 3},
			map[string]int64{"merges": 4000, "vec_searches": 80000, "engine_quiescence_checks": 3900}),
	}
	props["C16"] = &propSpec{
		Level:       "exploration",
		Rule:        "part A (exhaustive=true refers to it): one persisted segment with a vector field; for every ordered pair (e1,e2) of distinct exclusion sets from {none, one doc, half, all} every event sequence of length <= 5 (quick) / 7 (thorough) over {open(e1), open(e2), search(h0), search(h1), filtered-search(h0), close(h0), close(h1), expire (4 synchronous expiry passes through the verif hook)} with at most 2 handles open, on a freshly opened segment per sequence with the cache timer parked; remaining handles are closed, then the segment; oracle per search: exactly C14's answer for that handle's own exclusion set; engine monitor after every event (no use-after-close, no close-during-use, no double close) and after the bounded drain following segment close (no native index alive). Part A2: batches with >= 1000 vectors in a field (clustered index, default search parameters): eight kinds of search (small / full k, sparse / dense eligible set, with and without exclusions) are answered once each by a freshly opened segment, then a random history of 14 such searches and expiry passes on one more opening must give the same answers. Part B (race detector): 8-32 goroutines open/search/close with random exclusion sets while the expiry monitor ticks every 1 ms. distinct = histories / stress rounds",
		Assumptions: append([]string{"a handle is closed exactly once by its owner and before the segment is closed", "the asynchronous index closers are given a bounded drain; a drain timeout is reported as a leak"}, vecAssumptions...),
		Runs: func(tier string) []runSpec {
			return []runSpec{
				{Workload: "C16", Flavour: "vec", Shards: 16, TimeoutS: tq(tier, 900, 7200)},
				{Workload: "C16c", Flavour: "vecrace", Shards: 8, TimeoutS: tq(tier, 900, 3600)},
			}
		},
		Min: mins(map[string]int64{"c16_histories": 20000, "c16_searches": 20000, "c16_evictions": 500, "c16_reload_after_eviction": 200, "c16_stress_searches": 3000, "c16_clustered_histories": 10},
			map[string]int64{"c16_histories": 150000, "c16_searches": 150000, "c16_evictions": 5000, "c16_reload_after_eviction": 3000, "c16_stress_searches": 40000, "c16_clustered_histories": 100}),
	}
	props["C19"] = &propSpec{
		Level:       "fault_enumeration",
		Rule:        "for each scenario (build of a batch with vector fields; merge of 2-3 such segments with deletions; every 6th with >= 1000 vectors so that the clustered-index operations run): engine calls are counted per operation in a fault-free run, then for every operation in {IndexFactory, SetDirectMap, Train, AddWithIDs, WriteIndexIntoBuffer, ReadIndexFromBuffer, ReconstructBatch} and every n up to its count the n-th call is made to fail; oracle: New/Merge returns an error (a failed merge leaves no file); if no error is returned the segment must pass C14's oracle in full; engine monitor afterwards: no native index alive, no misuse; distinct = scenario fingerprint; every scenario is non-trivial (>= 3 fault points)",
		Assumptions: vecAssumptions,
		Runs:        vecRuns("C19", 16),
		Min: mins(map[string]int64{"c19_fault_points_build": 30, "c19_fault_points_merge": 60, "c19_fault_points_op_Train": 1, "c19_fault_points_op_ReconstructBatch": 10},
			map[string]int64{"c19_fault_points_build": 300, "c19_fault_points_merge": 600, "c19_fault_points_op_Train": 20, "c19_fault_points_op_ReconstructBatch": 100}),
	}
}

func init() {
	props["C09"] = &propSpec{
		Level:       "translation_validation",
		Rule:        "programs = files validated. Forward: every file written by the workload (the merge plans of C05 in all plan classes; Persist of seeded batches in all chunk-mode classes incl. tall batches with term cardinalities 1023..2049, Merge of two segments with deletions, Merge of that output) is decoded by zapdec, a reader written from the documented v16 layout that imports vellum/roaring/snappy but not zapx (footer + CRC, sections index, field records, dictionary FST, single-hit vs general values, chunked freq/norm and location streams with the documented chunk-size rule and full consumption of every chunk, stored blocks, doc-value chunks, thesaurus blocks, vector envelope) and compared with the model. Backward: 38 frozen files written by the pinned commit 562467b (/verif/corpus, sha256-checked, never regenerated by a check; incl. cardinality exactly 1024 in modes 1025/1026, merged-of-merged, thesauri, 70 kB values) are opened by the current code and compared on the full query surface with the stored spec, and decoded by zapdec (decoder self-check). disagreements_checked = files where decoder/reader and model disagreed",
		Assumptions: append([]string{"doc-value chunk size is not recorded in a file: the corpus uses the default 1024", "vector index blobs are the engine double's format; only the zapx-owned envelope is claimed", "frozen merged files avoid the inputs the pinned release itself mishandles (empty left-hand term in merged thesauri, nothing-survives merges)"}, commonAssumptions...),
		Runs: func(tier string) []runSpec {
			return []runSpec{
				{Workload: "C09", Flavour: "plain", Shards: 16, TimeoutS: tq(tier, 900, 3600)},
				{Workload: "C09", Flavour: "vec", Shards: 16, TimeoutS: tq(tier, 900, 3600)},
			}
		},
		Min: mins(map[string]int64{"programs": 1000, "corpus_files_reread": 38, "dec_hits_compared": 100000, "dec_onehit_entries": 1000, "files_from_merge_of_merge": 300},
			map[string]int64{"programs": 15000, "corpus_files_reread": 38, "dec_hits_compared": 1500000, "dec_onehit_entries": 15000, "files_from_merge_of_merge": 5000}),
	}
}
