// Command vcheck is the orchestrator: it builds the worker flavours from the
// current zapx tree, runs the workloads of one property as child processes
// under a watchdog, merges their event logs, applies the known findings,
// writes the evidence file and prints VIOLATION / KNOWN-FINDING lines.
//
// exit 0: held on everything explored (known findings only)
// exit 1: violation(s) not listed in known_findings.json
// exit 2: inconclusive / harness error
package main

import (
	"bufio"
	"bytes"
	"crypto/sha256"
	"encoding/json"
	"fmt"
	"os"
	"os/exec"
	"path/filepath"
	"regexp"
	"sort"
	"strconv"
	"strings"
	"sync"
	"time"
)

var verifDir = "/verif"

// outDir receives evidence/ and replays/ (verifDir unless this is a sensitivity run)
var outDir = ""

type line struct {
	T        string             `json:"t"`
	Case     string             `json:"case,omitempty"`
	Desc     json.RawMessage    `json:"desc,omitempty"`
	Class    string             `json:"class,omitempty"`
	Detail   string             `json:"detail,omitempty"`
	Counters map[string]int64   `json:"counters,omitempty"`
	Samples  []json.RawMessage  `json:"samples,omitempty"`
	Distinct []uint64           `json:"distinct,omitempty"`
	NDist    int64              `json:"ndistinct,omitempty"`
	Evals    int64              `json:"evals,omitempty"`
	Exh      bool               `json:"exhaustive,omitempty"`
	Extra    map[string]float64 `json:"extra,omitempty"`
}

type violation struct {
	Prop     string          `json:"property"`
	Flavour  string          `json:"flavour"`
	Workload string          `json:"workload"`
	Seed     int64           `json:"seed"`
	Tier     string          `json:"tier"`
	Shard    int             `json:"shard"`
	NShards  int             `json:"nshards"`
	Case     string          `json:"case"`
	Desc     json.RawMessage `json:"desc,omitempty"`
	Class    string          `json:"class"`
	Detail   string          `json:"detail"`
}

type finding struct {
	ID       string `json:"id"`
	Property string `json:"property"`
	Status   string `json:"status"` // known | fixed
	Commit   string `json:"commit,omitempty"`
	Text     string `json:"text"`
	Match    struct {
		Class  []string `json:"class,omitempty"`
		Desc   string   `json:"desc_regex,omitempty"`
		Detail string   `json:"detail_regex,omitempty"`
	} `json:"match"`
}

func (f *finding) matches(v *violation) bool {
	if f.Status != "known" || f.Property != v.Prop {
		return false
	}
	if len(f.Match.Class) > 0 {
		ok := false
		for _, c := range f.Match.Class {
			if c == v.Class {
				ok = true
			}
		}
		if !ok {
			return false
		}
	}
	if f.Match.Desc != "" {
		if ok, _ := regexp.MatchString(f.Match.Desc, string(v.Desc)); !ok {
			return false
		}
	}
	if f.Match.Detail != "" {
		if ok, _ := regexp.MatchString(f.Match.Detail, v.Detail); !ok {
			return false
		}
	}
	return true
}

func loadFindings() []finding {
	var doc struct {
		Findings []finding `json:"findings"`
	}
	b, err := os.ReadFile(filepath.Join(verifDir, "known_findings.json"))
	if err != nil {
		return nil
	}
	if err := json.Unmarshal(b, &doc); err != nil {
		fmt.Fprintln(os.Stderr, "vcheck: known_findings.json:", err)
		os.Exit(2)
	}
	return doc.Findings
}

func goEnv() []string {
	env := os.Environ()
	env = append(env, "GOFLAGS=-mod=mod", "GOPROXY=off", "GOSUMDB=off", "GOTOOLCHAIN=local", "CGO_ENABLED=1")
	return env
}

var buildMu sync.Mutex
var built = map[string]string{}

// buildWorker compiles the worker in the given flavour from the current
// zapx tree (go's build cache makes this cheap when nothing changed).
func buildWorker(fl string) (string, error) {
	buildMu.Lock()
	defer buildMu.Unlock()
	if p, ok := built[fl]; ok {
		return p, nil
	}
	tags := "verif"
	race := false
	switch fl {
	case "plain":
	case "race":
		race = true
	case "vec":
		tags = "verif,vectors"
	case "vecrace":
		tags = "verif,vectors"
		race = true
	default:
		return "", fmt.Errorf("unknown flavour %q", fl)
	}
	bdir := filepath.Join(verifDir, ".build")
	os.MkdirAll(bdir, 0755)
	args := []string{"build", "-tags", tags}
	if race {
		args = append(args, "-race")
	}
	hdir := filepath.Join(verifDir, "harness")
	suffix := ""
	if rd := os.Getenv("VERIF_REPO_DIR"); rd != "" && rd != "/repo" {
		// sensitivity runs against a scratch copy: generated modfile
		h := sha256.Sum256([]byte(rd))
		suffix = fmt.Sprintf("-%x", h[:4])
		mod, err := os.ReadFile(filepath.Join(hdir, "go.mod"))
		if err != nil {
			return "", err
		}
		mod = bytes.Replace(mod, []byte("=> /repo"), []byte("=> "+rd), 1)
		mf := filepath.Join(bdir, "alt"+suffix+".mod")
		if err := os.WriteFile(mf, mod, 0644); err != nil {
			return "", err
		}
		sum, _ := os.ReadFile(filepath.Join(hdir, "go.sum"))
		os.WriteFile(filepath.Join(bdir, "alt"+suffix+".sum"), sum, 0644)
		args = append(args, "-modfile="+mf)
	}
	out := filepath.Join(bdir, "worker-"+fl+suffix)
	tmp := fmt.Sprintf("%s.%d", out, os.Getpid())
	args = append(args, "-o", tmp, "./worker")
	cmd := exec.Command("go", args...)
	cmd.Dir = hdir
	cmd.Env = goEnv()
	if b, err := cmd.CombinedOutput(); err != nil {
		os.Remove(tmp)
		return "", fmt.Errorf("building worker (%s): %v\n%s", fl, err, b)
	}
	if err := os.Rename(tmp, out); err != nil {
		return "", err
	}
	built[fl] = out
	return out, nil
}

type shardResult struct {
	run      runSpec
	shard    int
	lines    []line
	done     *line
	lastCase *line
	exit     int
	timedOut bool
	stderr   string
	races    []raceReport
	err      error
}

type raceReport struct {
	Key   string
	Text  string
	InZap bool
}

var zapFrame = regexp.MustCompile(`github\.com/blevesearch/zapx/v16\.(\S+?)\(\)`)

func parseRaces(dir string) []raceReport {
	var out []raceReport
	files, _ := filepath.Glob(filepath.Join(dir, "race.log*"))
	for _, f := range files {
		b, err := os.ReadFile(f)
		if err != nil {
			continue
		}
		blocks := strings.Split(string(b), "WARNING: DATA RACE")
		for _, blk := range blocks[1:] {
			if i := strings.Index(blk, "=================="); i >= 0 {
				blk = blk[:i]
			}
			// outermost zapx frame of each of the two accessing stacks
			parts := regexp.MustCompile(`(?m)^(Read|Write|Previous read|Previous write|Atomic)[^\n]*\n`).Split(blk, -1)
			var outer []string
			for _, p := range parts[1:] {
				if j := strings.Index(p, "\n\n"); j >= 0 {
					p = p[:j]
				}
				ms := zapFrame.FindAllStringSubmatch(p, -1)
				if len(ms) > 0 {
					outer = append(outer, ms[len(ms)-1][1]+"<-"+ms[0][1])
				}
			}
			rr := raceReport{Text: "WARNING: DATA RACE" + blk}
			if len(outer) > 0 {
				sort.Strings(outer)
				rr.InZap = true
				rr.Key = strings.Join(outer, " || ")
			} else {
				rr.Key = "harness-only"
			}
			out = append(out, rr)
		}
	}
	return out
}

func runShard(rs runSpec, bin string, prop, tier string, seed int64, shard, nshards int, only string, tmp string) *shardResult {
	res := &shardResult{run: rs, shard: shard}
	sdir := filepath.Join(tmp, fmt.Sprintf("%s-%s-%d", rs.Workload, rs.Flavour, shard))
	os.MkdirAll(sdir, 0755)
	logf := filepath.Join(sdir, "events.jsonl")
	errf := filepath.Join(sdir, "stderr.txt")
	args := []string{"-s", "QUIT", "-k", "20", strconv.Itoa(rs.TimeoutS), bin,
		"-prop", rs.Workload, "-tier", tier, "-seed", strconv.FormatInt(seed, 10),
		"-shard", strconv.Itoa(shard), "-nshards", strconv.Itoa(nshards), "-flavour", rs.Flavour, "-out", logf}
	if only != "" {
		args = append(args, "-only", only)
	}
	cmd := exec.Command("timeout", args...)
	cmd.Dir = sdir
	cmd.Env = append(os.Environ(), "VERIF_SCRATCH="+sdir)
	if strings.Contains(rs.Flavour, "race") {
		cmd.Env = append(cmd.Env, "GORACE=halt_on_error=0 log_path="+filepath.Join(sdir, "race.log")+" history_size=5")
	}
	for _, e := range rs.Env {
		cmd.Env = append(cmd.Env, e)
	}
	ef, _ := os.Create(errf)
	cmd.Stdout = ef
	cmd.Stderr = ef
	err := cmd.Run()
	ef.Close()
	if err != nil {
		if ee, ok := err.(*exec.ExitError); ok {
			res.exit = ee.ExitCode()
		} else {
			res.err = err
			return res
		}
	}
	if res.exit == 124 || res.exit == 137 {
		res.timedOut = true
	}
	if b, err := os.ReadFile(errf); err == nil {
		if len(b) > 6000 {
			b = append(append([]byte{}, b[:3000]...), append([]byte("\n...\n"), b[len(b)-3000:]...)...)
		}
		res.stderr = string(b)
	}
	f, err := os.Open(logf)
	if err == nil {
		sc := bufio.NewScanner(f)
		sc.Buffer(make([]byte, 1<<20), 1<<28)
		for sc.Scan() {
			var l line
			if json.Unmarshal(sc.Bytes(), &l) != nil {
				continue
			}
			switch l.T {
			case "case":
				lc := l
				res.lastCase = &lc
			case "viol":
				res.lines = append(res.lines, l)
			case "done":
				d := l
				res.done = &d
			}
		}
		f.Close()
	}
	if strings.Contains(rs.Flavour, "race") {
		res.races = parseRaces(sdir)
	}
	return res
}

func main() {
	if len(os.Args) == 2 && os.Args[1] == "dump-mins" {
		out := map[string]map[string]map[string]int64{}
		for id, p := range props {
			out[id] = map[string]map[string]int64{"quick": p.Min("quick"), "thorough": p.Min("thorough")}
		}
		b, _ := json.MarshalIndent(out, "", " ")
		fmt.Println(string(b))
		return
	}
	if len(os.Args) < 3 {
		fmt.Fprintln(os.Stderr, "usage: vcheck <property> quick|thorough | vcheck <property> --replay <file>")
		os.Exit(2)
	}
	if d := os.Getenv("VERIF_DIR"); d != "" {
		verifDir = d
	}
	outDir = verifDir
	// sensitivity runs against a scratch copy must not overwrite the
	// evidence / replays of the real tree
	if rd := os.Getenv("VERIF_REPO_DIR"); rd != "" && rd != "/repo" {
		outDir = os.Getenv("VERIF_OUT_DIR")
		if outDir == "" {
			outDir = filepath.Join(os.TempDir(), "vcheck-alt-out")
		}
	}
	prop := os.Args[1]
	spec, ok := props[prop]
	if !ok {
		fmt.Fprintf(os.Stderr, "vcheck: unknown property %q\n", prop)
		os.Exit(2)
	}
	tier := os.Args[2]
	var replay *violation
	if tier == "--replay" {
		if len(os.Args) < 4 {
			fmt.Fprintln(os.Stderr, "vcheck: --replay needs a file")
			os.Exit(2)
		}
		b, err := os.ReadFile(os.Args[3])
		if err != nil {
			fmt.Fprintln(os.Stderr, "vcheck:", err)
			os.Exit(2)
		}
		replay = &violation{}
		if err := json.Unmarshal(b, replay); err != nil {
			fmt.Fprintln(os.Stderr, "vcheck:", err)
			os.Exit(2)
		}
		tier = replay.Tier
	}
	if t := os.Getenv("VERIF_TIER"); t != "" && replay == nil {
		tier = t
	}
	if tier != "quick" && tier != "thorough" {
		fmt.Fprintf(os.Stderr, "vcheck: tier must be quick or thorough, not %q\n", tier)
		os.Exit(2)
	}
	seed := int64(20260927)
	if s := os.Getenv("VERIF_SEED"); s != "" {
		if v, err := strconv.ParseInt(s, 10, 64); err == nil {
			seed = v
		}
	}
	if replay != nil {
		seed = replay.Seed
	}
	start := time.Now()
	tmp, err := os.MkdirTemp("", "vcheck-"+prop+"-")
	if err != nil {
		fmt.Fprintln(os.Stderr, "vcheck:", err)
		os.Exit(2)
	}
	defer os.RemoveAll(tmp)

	runs := spec.Runs(tier)
	if replay != nil {
		var rr []runSpec
		for _, r := range runs {
			if r.Workload == replay.Workload && r.Flavour == replay.Flavour {
				r.Shards = replay.NShards
				rr = append(rr, r)
			}
		}
		runs = rr
	}
	// build all flavours first (sequentially: they share the build cache)
	bins := map[string]string{}
	for _, r := range runs {
		if _, ok := bins[r.Flavour]; ok {
			continue
		}
		b, err := buildWorker(r.Flavour)
		if err != nil {
			fmt.Fprintln(os.Stderr, "vcheck:", err)
			os.RemoveAll(tmp)
			os.Exit(2)
		}
		bins[r.Flavour] = b
	}

	par := 16
	if p := os.Getenv("VERIF_PAR"); p != "" {
		if v, err := strconv.Atoi(p); err == nil && v > 0 {
			par = v
		}
	}
	sem := make(chan struct{}, par)
	var wg sync.WaitGroup
	var mu sync.Mutex
	var results []*shardResult
	for _, r := range runs {
		for s := 0; s < r.Shards; s++ {
			if replay != nil && s != replay.Shard {
				continue
			}
			wg.Add(1)
			go func(r runSpec, s int) {
				defer wg.Done()
				sem <- struct{}{}
				defer func() { <-sem }()
				only := ""
				if replay != nil {
					only = replay.Case
				}
				res := runShard(r, bins[r.Flavour], prop, tier, seed, s, r.Shards, only, tmp)
				mu.Lock()
				results = append(results, res)
				mu.Unlock()
			}(r, s)
		}
	}
	wg.Wait()
	sort.Slice(results, func(i, j int) bool {
		if results[i].run.Workload != results[j].run.Workload {
			return results[i].run.Workload < results[j].run.Workload
		}
		if results[i].run.Flavour != results[j].run.Flavour {
			return results[i].run.Flavour < results[j].run.Flavour
		}
		return results[i].shard < results[j].shard
	})

	// aggregate
	counters := map[string]int64{}
	distinct := map[uint64]struct{}{}
	var ndist, evals int64
	var samples []json.RawMessage
	exhaustive := true
	sawExh := false
	var viols []violation
	inconclusive := []string{}
	raceKeys := map[string]int{}
	for _, res := range results {
		mk := func(l *line, class, detail string) violation {
			v := violation{Prop: prop, Flavour: res.run.Flavour, Workload: res.run.Workload, Seed: seed, Tier: tier,
				Shard: res.shard, NShards: res.run.Shards, Class: class, Detail: detail}
			if l != nil {
				v.Case = l.Case
				v.Desc = l.Desc
			}
			return v
		}
		if res.err != nil {
			inconclusive = append(inconclusive, fmt.Sprintf("%s/%s shard %d: %v", res.run.Workload, res.run.Flavour, res.shard, res.err))
			continue
		}
		for i := range res.lines {
			l := &res.lines[i]
			viols = append(viols, mk(l, l.Class, l.Detail))
		}
		for _, rr := range res.races {
			if rr.InZap {
				if raceKeys[rr.Key] == 0 {
					txt := rr.Text
					if len(txt) > 4000 {
						txt = txt[:4000]
					}
					viols = append(viols, mk(res.lastCase, "race", "data race: "+rr.Key+"\n"+txt))
				}
				raceKeys[rr.Key]++
			} else {
				inconclusive = append(inconclusive, "race report without zapx frames (harness race?): "+firstLines(rr.Text, 12))
			}
		}
		if res.done == nil {
			switch {
			case res.timedOut:
				inconclusive = append(inconclusive, fmt.Sprintf("%s/%s shard %d: watchdog fired after %ds (last case %s)", res.run.Workload, res.run.Flavour, res.shard, res.run.TimeoutS, caseOf(res.lastCase)))
			case res.exit == 3:
				inconclusive = append(inconclusive, fmt.Sprintf("%s/%s shard %d: worker setup error: %s", res.run.Workload, res.run.Flavour, res.shard, firstLines(res.stderr, 5)))
			default:
				// the process died inside a case: attributed to the last logged case
				viols = append(viols, mk(res.lastCase, "crash", fmt.Sprintf("worker died (exit %d) in case %s:\n%s", res.exit, caseOf(res.lastCase), firstLines(crashHead(res.stderr), 40))))
			}
			continue
		}
		d := res.done
		for k, v := range d.Counters {
			if strings.HasPrefix(k, "max_") {
				if v > counters[k] {
					counters[k] = v
				}
			} else {
				counters[k] += v
			}
		}
		for _, x := range d.Distinct {
			distinct[x] = struct{}{}
		}
		ndist += d.NDist
		evals += d.Evals
		if len(samples) < 4 {
			for _, s := range d.Samples {
				if len(samples) < 4 {
					samples = append(samples, s)
				}
			}
		}
		if d.Exh {
			sawExh = true
		} else {
			exhaustive = false
		}
	}
	counters["race_reports_in_zapx"] = 0
	for _, n := range raceKeys {
		counters["race_reports_in_zapx"] += int64(n)
	}
	if len(raceKeys) > 0 {
		counters["race_reports_distinct"] = int64(len(raceKeys))
	}

	// known findings
	findings := loadFindings()
	knownHit := map[string]*finding{}
	var unknown []violation
	for i := range viols {
		v := &viols[i]
		matched := false
		for j := range findings {
			if findings[j].matches(v) {
				knownHit[findings[j].ID] = &findings[j]
				matched = true
				break
			}
		}
		if !matched {
			unknown = append(unknown, *v)
		}
	}

	// minimum observations (a run that saw too little is inconclusive)
	if replay == nil {
		for k, min := range spec.Min(tier) {
			if counters[k] < min {
				inconclusive = append(inconclusive, fmt.Sprintf("counter %s = %d below the minimum %d for tier %s", k, counters[k], min, tier))
			}
		}
	}

	nd := int64(len(distinct)) + ndist
	wall := time.Since(start).Seconds()
	if replay == nil {
		ev := map[string]interface{}{
			"property_id": prop,
			"tier":        tier,
			"seed":        seed,
			"level":       spec.Level,
			"wall_s":      wall,
			"violations":  len(unknown),
			"assumptions": spec.Assumptions,
		}
		cov := map[string]interface{}{
			"evaluations":         evals,
			"distinct_nontrivial": nd,
			"rule":                spec.Rule,
			"samples":             samples,
			"observed":            counters,
			"runs":                describeRuns(runs),
			"known_findings_hit":  keysOf(knownHit),
			"inconclusive":        inconclusive,
		}
		if sawExh && exhaustive {
			cov["exhaustive"] = true
		}
		for k, v := range spec.ExtraCoverage {
			cov[k] = v
		}
		if spec.Level == "translation_validation" {
			cov["programs"] = counters["programs"]
			cov["disagreements_checked"] = counters["disagreements_checked"]
		}
		if len(samples) == 0 {
			cov["samples"] = []interface{}{"(no sample recorded)"}
		}
		ev["coverage"] = cov
		os.MkdirAll(filepath.Join(outDir, "evidence"), 0755)
		b, _ := json.MarshalIndent(ev, "", " ")
		os.WriteFile(filepath.Join(outDir, "evidence", prop+".json"), append(b, '\n'), 0644)
	}

	for _, id := range keysOf(knownHit) {
		f := knownHit[id]
		fmt.Printf("KNOWN-FINDING: property=%s %s: %s\n", prop, f.ID, f.Text)
	}
	if len(unknown) > 0 {
		seen := map[string]bool{}
		n := 0
		for _, v := range unknown {
			key := v.Class + "|" + v.Workload + "|" + v.Flavour
			if seen[key] && n >= 3 {
				continue
			}
			seen[key] = true
			n++
			if n > 8 {
				break
			}
			b, _ := json.MarshalIndent(v, "", " ")
			h := sha256.Sum256(b)
			rdir := filepath.Join(outDir, "replays", prop)
			os.MkdirAll(rdir, 0755)
			rp := filepath.Join(rdir, fmt.Sprintf("%x.json", h[:6]))
			os.WriteFile(rp, append(b, '\n'), 0644)
			fmt.Printf("VIOLATION property=%s replay=%s\n", prop, rp)
			fmt.Printf("  [%s/%s case %s] %s: %s\n", v.Workload, v.Flavour, v.Case, v.Class, firstLines(v.Detail, 6))
		}
		byClass := map[string]int{}
		for _, v := range unknown {
			byClass[v.Class]++
		}
		fmt.Printf("%s %s: %d violation(s) in %d evaluations (%.1fs); by class: %v\n", prop, tier, len(unknown), evals, wall, byClass)
		os.RemoveAll(tmp)
		os.Exit(1)
	}
	if len(inconclusive) > 0 {
		for _, s := range inconclusive {
			fmt.Printf("INCONCLUSIVE property=%s %s\n", prop, s)
		}
		os.RemoveAll(tmp)
		os.Exit(2)
	}
	fmt.Printf("%s %s: held on %d evaluations, %d distinct non-trivial cases (%.1fs, seed %d)\n", prop, tier, evals, nd, wall, seed)
}

func caseOf(l *line) string {
	if l == nil {
		return "<none>"
	}
	return l.Case + " " + string(l.Desc)
}

func keysOf(m map[string]*finding) []string {
	ks := make([]string, 0, len(m))
	for k := range m {
		ks = append(ks, k)
	}
	sort.Strings(ks)
	return ks
}

func firstLines(s string, n int) string {
	ls := strings.Split(s, "\n")
	if len(ls) > n {
		ls = ls[:n]
	}
	return strings.Join(ls, "\n")
}

// crashHead skips to the panic / fatal error line of a Go crash dump.
func crashHead(s string) string {
	for _, m := range []string{"panic:", "fatal error:", "unexpected fault address", "SIGQUIT"} {
		if i := strings.Index(s, m); i >= 0 {
			return s[i:]
		}
	}
	return s
}

func describeRuns(rs []runSpec) []string {
	var out []string
	for _, r := range rs {
		out = append(out, fmt.Sprintf("%s flavour=%s shards=%d", r.Workload, r.Flavour, r.Shards))
	}
	return out
}
