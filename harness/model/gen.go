package model

import (
	"fmt"
	"math/rand"
	"strings"
)

// Small alphabets on purpose: collisions are where the bugs are.
var (
	longTerm  = strings.Repeat("L", 300)
	TermPool  = []string{"a", "b", "ab", "abc", "", "b\x00", "é", "日本", "zz", "k", "m", "q1", "q2", "t\x01", longTerm, "\xfe", "aa", "ba", "z", "aaa"}
	FieldPool = []string{"body", "title", "tags", "n", "x y", "ünï", "f0", "f1", "f2", "f3", "f4", "f5", "g", "h.sub", "k-9", "zfield", "A", "B"}
	ThesPool  = []string{"th1", "th2", "syn.a", "Σsyn"}
	VecPool   = []string{"vec", "emb", "v2"}
	SynPool   = []string{"car", "auto", "vehicle", "motor", "é", "x", "y y", "wagon", longTerm[:50], "z\x00z"}
	typePool  = []byte{'t', 'n', 'd', 'b', 'g', 'i'}
)

// Classes lists the size classes of the batch generator.
var Classes = []string{"empty", "one", "small", "wide", "deep", "mid", "tall", "stored"}

// GenOpts tunes Gen.
type GenOpts struct {
	// NumFields: exact number of w-fields of class xwide (every one of them occurs in
	// document 0, and a composite field is added: the segment has NumFields+2 fields)
	NumFields int
	Syn       bool     // add synonym documents
	Vec       bool     // add vector fields
	IDPrefix  string   // make ids of different batches distinct (or equal, for update-like merges)
	MaxTerms  int      // restrict term alphabet (0 = class default)
	NoBig     bool     // no 70 kB values
	Names     []string // use exactly these field names, every document has every field (identical field lists across batches)
	Terms     []string // use exactly this term alphabet
	Docs      int      // override the number of documents (0 = class default)
	NoDupIDs  bool
	Always    string // if non-empty: this term occurs in every instance of the first field name
	HasAlways bool
	VecSalt   int // vector-field configuration (dims, metric, optimisation) is a function of (field name, salt): equal in all batches of a merge plan
}

func pick(rng *rand.Rand, pool []string, n int) []string {
	if n > len(pool) {
		n = len(pool)
	}
	idx := rng.Perm(len(pool))[:n]
	out := make([]string, n)
	for i, j := range idx {
		out[i] = pool[j]
	}
	return out
}

// varint width boundaries: values that need one byte more than their predecessor
var boundaryVals = []uint64{127, 128, 129, 16383, 16384, 16385, 2097151, 2097152}

func genAP(rng *rand.Rand) []uint64 {
	if rng.Intn(16) == 0 {
		return []uint64{boundaryVals[rng.Intn(len(boundaryVals))]}
	}
	switch rng.Intn(10) {
	case 0, 1, 2, 3, 4:
		return nil
	case 5, 6:
		return []uint64{uint64(rng.Intn(5))}
	case 7:
		return []uint64{uint64(rng.Intn(3)), uint64(rng.Intn(300))}
	case 8:
		n := 3 + rng.Intn(38)
		ap := make([]uint64, n)
		for i := range ap {
			ap[i] = uint64(rng.Intn(1 << uint(1+rng.Intn(20))))
		}
		return ap
	default:
		return []uint64{1 << 40, 0}
	}
}

func genValue(rng *rand.Rand, big bool) []byte {
	var n int
	switch rng.Intn(13) {
	case 12:
		n = []int{126, 127, 128, 129, 255, 256}[rng.Intn(6)] // record-header width boundaries
	case 0:
		n = 0
	case 1:
		n = 1
	case 2:
		if big {
			n = 66000 + rng.Intn(9000)
		} else {
			n = 200
		}
	default:
		n = 1 + rng.Intn(40)
	}
	v := make([]byte, n)
	if n > 1000 {
		// partly compressible, partly not
		for i := range v {
			if i%3 == 0 {
				v[i] = byte(rng.Intn(255))
			} else {
				v[i] = byte(i >> 8)
			}
		}
		return v
	}
	for i := range v {
		v[i] = byte(rng.Intn(255)) // 0x00..0xfe
	}
	return v
}

type fieldCfg struct {
	stored, dv, tv bool
	skipFreq       bool
}

// Gen draws a batch of the given size class.
func Gen(rng *rand.Rand, class string, o GenOpts) *Batch {
	b := &Batch{}
	var nDocs, nFieldNames, maxInst, nTerms, maxToks int
	switch class {
	case "empty":
		return b
	case "one":
		nDocs, nFieldNames, maxInst, nTerms, maxToks = 1, 1+rng.Intn(4), 1+rng.Intn(2), 6, 4
	case "small":
		nDocs, nFieldNames, maxInst, nTerms, maxToks = 2+rng.Intn(7), 1+rng.Intn(4), 1+rng.Intn(2), 4+rng.Intn(6), 4
	case "wide":
		nDocs, nFieldNames, maxInst, nTerms, maxToks = 3+rng.Intn(8), 8+rng.Intn(10), 1, 8, 3
	case "deep":
		nDocs, nFieldNames, maxInst, nTerms, maxToks = 2+rng.Intn(5), 1+rng.Intn(3), 2+rng.Intn(4), 6, 5
	case "mid":
		nDocs, nFieldNames, maxInst, nTerms, maxToks = 20+rng.Intn(41), 2+rng.Intn(3), 1+rng.Intn(2), 5+rng.Intn(8), 4
		if rng.Intn(8) == 0 {
			nDocs = []int{127, 128, 129, 255, 256, 257}[rng.Intn(6)] // doc-number width boundaries
		}
	case "tall":
		nDocs, nFieldNames, maxInst, nTerms, maxToks = 1100+rng.Intn(1500), 1+rng.Intn(2), 1, 3+rng.Intn(3), 2
		if rng.Intn(3) == 0 {
			nDocs = []int{1023, 1024, 1025, 2047, 2048, 2049}[rng.Intn(6)] // document counts at chunk multiples
		}
	case "stored":
		nDocs, nFieldNames, maxInst, nTerms, maxToks = 2+rng.Intn(10), 2+rng.Intn(5), 1+rng.Intn(3), 4, 2
	case "multi":
		// multi-valued field: the number of field instances holding a term and the
		// number of documents holding it lie on different sides of 1024 (or 2048)
		return genMulti(rng, o)
	case "xwide":
		// more than 128 fields: field ids need two varint bytes
		return genXWide(rng, o)
	case "huge":
		// more than 65536 documents: document numbers need more than 16 bits
		return genHuge(rng, o)
	default:
		panic("unknown class " + class)
	}
	if o.MaxTerms > 0 {
		nTerms = o.MaxTerms
	}
	names := pick(rng, FieldPool, nFieldNames)
	terms := pick(rng, TermPool, nTerms)
	if class == "tall" && rng.Intn(2) == 0 {
		// the empty term is an ordinary term, also in big dictionaries
		has := false
		for _, t := range terms {
			has = has || t == ""
		}
		if !has {
			terms[0] = ""
		}
	}
	if o.Names != nil {
		names = o.Names
	}
	if o.Terms != nil {
		terms = o.Terms
	}
	if o.Docs > 0 {
		nDocs = o.Docs
	}
	cfg := map[string]*fieldCfg{}
	for _, n := range names {
		cfg[n] = &fieldCfg{
			stored:   rng.Intn(2) == 0 || class == "stored",
			dv:       rng.Intn(5) < 2,
			tv:       rng.Intn(2) == 0,
			skipFreq: rng.Intn(8) == 0,
		}
	}
	if class == "tall" {
		for _, c := range cfg {
			c.stored = rng.Intn(4) == 0
			c.tv = rng.Intn(3) == 0
		}
	}
	mixed := rng.Intn(10) == 0 // options vary between instances of a field
	withAll := rng.Intn(3) == 0 && class != "tall" && o.Names == nil
	dupIDs := rng.Intn(12) == 0 && !o.NoDupIDs
	idWidth := 1 + rng.Intn(3)
	idDV := rng.Intn(10) == 0
	for d := 0; d < nDocs; d++ {
		var doc Doc
		switch {
		case dupIDs && d > 0 && rng.Intn(3) == 0:
			doc.ID = b.Docs[rng.Intn(d)].ID
		case class == "tall":
			doc.ID = fmt.Sprintf("%sid%06d", o.IDPrefix, d)
		default:
			doc.ID = fmt.Sprintf("%s%s%0*d", o.IDPrefix, []string{"d", "doc-é", "", "Z"}[rng.Intn(4)], idWidth, d)
			if doc.ID == "" {
				doc.ID = "0"
			}
		}
		doc.IDLast = rng.Intn(2) == 0
		doc.IDDV = idDV
		// which field names this doc has (documents with non-overlapping fields matter)
		for _, n := range names {
			if rng.Intn(4) == 0 && class != "tall" && o.Names == nil {
				continue
			}
			c := cfg[n]
			inst := 1 + rng.Intn(maxInst)
			for k := 0; k < inst; k++ {
				f := FieldInst{Name: n, Type: typePool[rng.Intn(len(typePool))], Stored: c.stored, DV: c.dv, TV: c.tv}
				if mixed {
					f.Stored = rng.Intn(2) == 0
					f.DV = rng.Intn(2) == 0
				}
				if inst > 1 {
					f.AP = []uint64{uint64(k)}
				} else {
					f.AP = genAP(rng)
				}
				if f.Stored {
					f.Value = genValue(rng, class == "stored" && !o.NoBig)
				}
				nt := rng.Intn(maxToks + 1)
				if class == "tall" {
					nt = 1 + rng.Intn(maxToks)
				}
				if rng.Intn(10) == 0 {
					nt = 0 // stored-only instance
				}
				pos := uint64(1)
				off := uint64(0)
				chosen := pick(rng, terms, nt)
				if o.HasAlways && n == names[0] {
					has := false
					for _, t := range chosen {
						has = has || t == o.Always
					}
					if !has {
						chosen = append(chosen, o.Always)
					}
				}
				for _, t := range chosen {
					tok := Tok{Term: t, Freq: 1 + rng.Intn(3)}
					if class == "tall" {
						tok.Freq = 1 + rng.Intn(2)
					}
					if c.skipFreq {
						tok.Freq = 0
					}
					if f.TV {
						nl := tok.Freq
						if nl == 0 {
							nl = 1 + rng.Intn(2)
						}
						for l := 0; l < nl; l++ {
							loc := Loc{Pos: pos, Start: off, End: off + uint64(len(t))}
							if rng.Intn(40) == 0 {
								loc.End = 1 << 33
							}
							if rng.Intn(24) == 0 {
								// varint width boundaries in position / offsets
								v := boundaryVals[rng.Intn(len(boundaryVals))]
								switch rng.Intn(3) {
								case 0:
									loc.Pos = v
								case 1:
									loc.Start = v
								default:
									loc.End = v
								}
							}
							if len(f.AP) > 0 {
								loc.AP = append([]uint64(nil), f.AP...)
							}
							if rng.Intn(6) == 0 {
								loc.Field = n // explicit own name
							}
							tok.Locs = append(tok.Locs, loc)
							pos += uint64(1 + rng.Intn(2))
							off += uint64(len(t) + 1)
						}
					}
					f.Toks = append(f.Toks, tok)
					f.Len += tok.Freq
				}
				if len(f.Toks) > 0 {
					// input domain: an instance with tokens has analysed length >= 1
					f.Len += rng.Intn(3)
					if f.Len == 0 {
						f.Len = 1
					}
				} else {
					if rng.Intn(2) == 0 {
						f.Len = rng.Intn(3)
					}
					f.NilFreqs = rng.Intn(2) == 0
				}
				doc.Fields = append(doc.Fields, f)
			}
		}
		if withAll && len(doc.Fields) > 0 {
			doc.Composite = []FieldInst{compose("_all", doc.Fields)}
		}
		b.Docs = append(b.Docs, doc)
	}
	AddShapes(b, 11)
	DropTermVectorFlags(b, 9)
	InterleaveFields(b, 5)
	if o.Vec {
		salt := o.VecSalt
		if salt == 0 {
			salt = 1 + rng.Intn(1000)
		}
		addVectors(rng, b, salt)
	}
	if o.Syn {
		addSynonymDocs(rng, b, o.IDPrefix)
	}
	return b
}

// AddShapes turns about one field instance in `every` into a geo-shape
// instance (chosen by position, no random draws). The shape bytes cannot
// collide with a term and hold no 0xff (the doc-value separator).
func AddShapes(b *Batch, every int) {
	for di := range b.Docs {
		for fi := range b.Docs[di].Fields {
			// (a geo-shape field always comes with tokens in bleve: shape-only
			// instances of a field without any term are outside the domain)
			if (di*7+fi*3+len(b.Docs[di].Fields))%every == 0 && len(b.Docs[di].Fields[fi].Toks) > 0 {
				b.Docs[di].Fields[fi].Shape = []byte(fmt.Sprintf("\x01shape-%d-%d", di, fi))
			}
		}
	}
}

// compose builds a composite field exactly like bleve builds `_all`: token
// maps of the sources merged, each location naming its source field.
func compose(name string, src []FieldInst) FieldInst {
	c := FieldInst{Name: name, Type: 'c', TV: true}
	idx := map[string]int{}
	for _, f := range src {
		c.Len += f.Len
		for _, t := range f.Toks {
			i, ok := idx[t.Term]
			if !ok {
				i = len(c.Toks)
				idx[t.Term] = i
				c.Toks = append(c.Toks, Tok{Term: t.Term})
			}
			c.Toks[i].Freq += t.Freq
			for _, l := range t.Locs {
				ll := l
				ll.Field = f.Name
				c.Toks[i].Locs = append(c.Toks[i].Locs, ll)
			}
		}
	}
	return c
}

func addSynonymDocs(rng *rand.Rand, b *Batch, prefix string) {
	nThes := 1 + rng.Intn(3)
	thes := pick(rng, ThesPool, nThes)
	nSynDocs := 1 + rng.Intn(6)
	lhsPool := pick(rng, TermPool, 5)
	for i := 0; i < nSynDocs; i++ {
		d := Doc{ID: fmt.Sprintf("%ssyn%d", prefix, i), IDLast: rng.Intn(2) == 0}
		nf := 1
		if rng.Intn(6) == 0 {
			nf = 2
		}
		for k := 0; k < nf; k++ {
			sf := SynField{Thes: thes[rng.Intn(len(thes))]}
			syns := pick(rng, SynPool, 1+rng.Intn(4))
			if rng.Intn(2) == 0 {
				// explicit left-hand side
				for _, lhs := range pick(rng, lhsPool, 1+rng.Intn(3)) {
					sf.Pairs = append(sf.Pairs, SynPair{Term: lhs, Syns: append([]string(nil), syns...)})
				}
			} else {
				// equivalence group: each phrase maps to all others
				if len(syns) < 2 {
					syns = append(syns, "also")
				}
				for a, s := range syns {
					p := SynPair{Term: s}
					for c, t := range syns {
						if a != c {
							p.Syns = append(p.Syns, t)
						}
					}
					sf.Pairs = append(sf.Pairs, p)
				}
			}
			if rng.Intn(12) == 0 {
				// analysis can leave a definition without any synonym (e.g. stop
				// words): its terms then have no pairs; a thesaurus may end up empty
				for pi := range sf.Pairs {
					sf.Pairs[pi].Syns = nil
				}
				if rng.Intn(2) == 0 {
					sf.Pairs = nil // an equivalence group analysed to nothing yields no pair at all
				}
			}
			d.Syn = append(d.Syn, sf)
		}
		// insert at a random position among the ordinary documents
		pos := rng.Intn(len(b.Docs) + 1)
		b.Docs = append(b.Docs, Doc{})
		copy(b.Docs[pos+1:], b.Docs[pos:])
		b.Docs[pos] = d
	}
}

var Metrics = []string{"l2_norm", "dot_product", "cosine"}
var Opts = []string{"recall", "latency", "memory-efficient"}

func genVec(rng *rand.Rand, dims int) []float32 {
	v := make([]float32, dims)
	for i := range v {
		v[i] = float32(rng.Intn(17)-8) / 4 // small grid => ties and duplicates happen
	}
	return v
}

func addVectors(rng *rand.Rand, b *Batch, salt int) {
	if len(b.Docs) == 0 {
		return
	}
	nf := 1 + rng.Intn(2)
	for _, name := range pick(rng, VecPool, nf) {
		// all vectors of one field share dims / metric / optimisation (field mapping)
		h := salt*31 + len(name)*7 + int(name[0])
		dims := 2 + h%4
		metric := Metrics[(h/4)%3]
		opt := Opts[(h/12)%3]
		var pool [][]float32
		for i := 0; i < 6; i++ {
			pool = append(pool, genVec(rng, dims))
		}
		for d := range b.Docs {
			if len(b.Docs[d].Syn) > 0 {
				continue
			}
			switch rng.Intn(6) {
			case 0: // no vector
			case 1: // several vectors in one field instance
				var v []float32
				for k := 0; k < 2+rng.Intn(2); k++ {
					v = append(v, genVec(rng, dims)...)
				}
				b.Docs[d].Vecs = append(b.Docs[d].Vecs, VecField{Name: name, Dims: dims, Metric: metric, Opt: opt, Vec: v})
			case 2: // duplicate of a pooled vector (duplicates across documents)
				b.Docs[d].Vecs = append(b.Docs[d].Vecs, VecField{Name: name, Dims: dims, Metric: metric, Opt: opt,
					Vec: append([]float32(nil), pool[rng.Intn(len(pool))]...)})
			default:
				b.Docs[d].Vecs = append(b.Docs[d].Vecs, VecField{Name: name, Dims: dims, Metric: metric, Opt: opt, Vec: genVec(rng, dims)})
			}
		}
	}
}

// ForceCardinality rewrites the batch so that term occurs in field in exactly
// k documents (chosen by rng).  Used for cardinalities next to multiples of
// 1024, where the chunk-size rules of modes 1025/1026 switch.
func ForceCardinality(b *Batch, rng *rand.Rand, field, term string, k int) {
	n := len(b.Docs)
	if k > n {
		k = n
	}
	chosen := map[int]bool{}
	for _, i := range rng.Perm(n)[:k] {
		chosen[i] = true
	}
	for di := range b.Docs {
		d := &b.Docs[di]
		if len(d.Syn) > 0 {
			continue
		}
		have := false
		for fi := range d.Fields {
			f := &d.Fields[fi]
			if f.Name != field {
				continue
			}
			keep := f.Toks[:0]
			for _, t := range f.Toks {
				if t.Term == term {
					if chosen[di] && !have {
						have = true
						keep = append(keep, t)
					}
					continue
				}
				keep = append(keep, t)
			}
			f.Toks = keep
		}
		if chosen[di] && !have {
			placed := false
			for fi := range d.Fields {
				f := &d.Fields[fi]
				if f.Name == field {
					f.Toks = append(f.Toks, Tok{Term: term, Freq: 1})
					if f.Len == 0 {
						f.Len = 1
					}
					placed = true
					break
				}
			}
			if !placed {
				d.Fields = append(d.Fields, FieldInst{Name: field, Type: 't', Len: 1, Toks: []Tok{{Term: term, Freq: 1}}})
			}
		}
		if len(d.Composite) > 0 {
			d.Composite = []FieldInst{compose(d.Composite[0].Name, d.Fields)}
		}
	}
}

// EdgeCards are term cardinalities around the chunk-rule thresholds.
var EdgeCards = []int{1023, 1024, 1025, 2047, 2048, 2049, 1, 1026}

func genMulti(rng *rand.Rand, o GenOpts) *Batch {
	b := &Batch{}
	k := 2 + rng.Intn(8)
	target := []int{1024, 2048}[rng.Intn(2)]
	nDocs := target/k + 1 + rng.Intn(40) // docs*k >= target > docs (k >= 2)
	if o.Docs > 0 {
		nDocs = o.Docs
	}
	name := FieldPool[rng.Intn(len(FieldPool))]
	other := FieldPool[rng.Intn(len(FieldPool))]
	tv := rng.Intn(2) == 0
	for d := 0; d < nDocs; d++ {
		doc := Doc{ID: fmt.Sprintf("%smv%05d", o.IDPrefix, d), IDLast: d%2 == 0}
		for i := 0; i < k; i++ {
			f := FieldInst{Name: name, Type: 't', AP: []uint64{uint64(i)}, TV: tv, Len: 2}
			tok := Tok{Term: "hot", Freq: 1}
			if tv {
				tok.Locs = []Loc{{Pos: uint64(i + 1), Start: uint64(4 * i), End: uint64(4*i + 3), AP: []uint64{uint64(i)}}}
			}
			f.Toks = append(f.Toks, tok)
			if rng.Intn(3) == 0 {
				f.Toks = append(f.Toks, Tok{Term: TermPool[rng.Intn(8)], Freq: 1})
			}
			doc.Fields = append(doc.Fields, f)
		}
		if other != name && d%3 == 0 {
			doc.Fields = append(doc.Fields, FieldInst{Name: other, Type: 't', Len: 1, Stored: true, Value: []byte{byte(d)}, Toks: []Tok{{Term: "x", Freq: 1}}})
		}
		b.Docs = append(b.Docs, doc)
	}
	return b
}

func genXWide(rng *rand.Rand, o GenOpts) *Batch {
	b := &Batch{}
	// field counts around 64 (bit masks), 128 and 256 (one more varint / byte), 129..148
	nf := []int{129 + rng.Intn(20), 62, 63, 64, 65, 126, 127, 130, 254, 255, 256, 140}[rng.Intn(12)]
	if o.NumFields > 0 {
		nf = o.NumFields
	}
	nDocs := 2 + rng.Intn(3)
	for d := 0; d < nDocs; d++ {
		doc := Doc{ID: fmt.Sprintf("%sxw%d", o.IDPrefix, d), IDLast: d%2 == 1}
		for i := 0; i < nf; i++ {
			if rng.Intn(5) == 0 && i != 126 && i != 127 && i != 128 && i != nf-1 && d != 0 {
				continue
			}
			name := fmt.Sprintf("w%03d", i)
			f := FieldInst{Name: name, Type: 't', TV: true, Len: 2, Stored: i%7 == 0 || i == nf-1, DV: i%5 == 0}
			if f.Stored {
				f.Value = []byte(name)
			}
			f.Toks = []Tok{{Term: TermPool[rng.Intn(4)], Freq: 1, Locs: []Loc{{Pos: 1, Start: uint64(i), End: uint64(i + 2)}}}, {Term: "z", Freq: 1, Locs: []Loc{{Pos: 2, Start: 3, End: 4}}}}
			doc.Fields = append(doc.Fields, f)
		}
		if rng.Intn(2) == 0 || o.NumFields > 0 {
			doc.Composite = []FieldInst{compose("_all", doc.Fields)}
		}
		b.Docs = append(b.Docs, doc)
	}
	if o.Syn {
		addSynonymDocs(rng, b, o.IDPrefix)
	}
	return b
}

// TrimVectors removes vector field instances of the given field from the
// documents for which counts(batch, doc) is true until exactly target vectors
// of that field remain on those documents.  It reports whether the target was
// reached (it is not when fewer than target vectors were there to begin with).
// Used for vector counts next to 1000, where the class of the vector index
// switches from exact to clustered.
func TrimVectors(bs []*Batch, field string, counts func(batch, doc int) bool, target int) bool {
	n := 0
	entries := func(vf *VecField) int {
		if vf.Dims == 0 {
			return 0
		}
		return len(vf.Vec) / vf.Dims
	}
	for bi, b := range bs {
		for di := range b.Docs {
			if !counts(bi, di) {
				continue
			}
			for vi := range b.Docs[di].Vecs {
				if b.Docs[di].Vecs[vi].Name == field {
					n += entries(&b.Docs[di].Vecs[vi])
				}
			}
		}
	}
	for bi, b := range bs {
		for di := range b.Docs {
			if n == target {
				return true
			}
			if !counts(bi, di) {
				continue
			}
			keep := b.Docs[di].Vecs[:0]
			for _, vf := range b.Docs[di].Vecs {
				if k := entries(&vf); vf.Name == field && k > 0 && n-k >= target {
					n -= k
					continue
				}
				keep = append(keep, vf)
			}
			b.Docs[di].Vecs = keep
		}
	}
	return n == target
}

// AddBigSynonymDoc appends a synonym-definition document whose term maps to n
// distinct synonyms in the given thesaurus (n (synonym, document) pairs): pair
// counts next to 1024 / 2048 / 4096, where bitmap containers and batch sizes switch.
func AddBigSynonymDoc(b *Batch, id, thes, term string, n int) {
	p := SynPair{Term: term}
	for k := 0; k < n; k++ {
		p.Syns = append(p.Syns, fmt.Sprintf("s%s-%05d", id, k))
	}
	b.Docs = append(b.Docs, Doc{ID: id, Syn: []SynField{{Thes: thes, Pairs: []SynPair{p}}}})
}

// GenMetaSweep: documents whose stored-field records have header (metadata)
// lengths covering a contiguous range across several multiples of 128 - one
// more stored value adds a few header bytes, one more array position adds one -
// and data lengths around 128 / 16384 (varint widths of the record header).
func GenMetaSweep(rng *rand.Rand, prefix string) *Batch {
	b := &Batch{}
	name := FieldPool[rng.Intn(len(FieldPool))]
	base := 8 + rng.Intn(8)
	for d := 0; d < 420; d++ {
		doc := Doc{ID: fmt.Sprintf("%sms%03d", prefix, d), IDLast: d%5 == 0}
		k := base + d/7
		for v := 0; v < k; v++ {
			f := FieldInst{Name: name, Type: typePool[(d+v)%len(typePool)], Stored: true, Value: []byte{byte('a' + v%26)}, AP: []uint64{uint64(v % 100)}, Len: 0}
			if v == 0 {
				for e := 0; e < d%7; e++ {
					f.AP = append(f.AP, uint64(e))
				}
				if d%11 == 0 {
					// data length next to a varint width boundary
					f.Value = make([]byte, []int{126, 127, 128, 129, 16383, 16384}[(d/11)%6])
					for i := range f.Value {
						f.Value[i] = byte(rng.Intn(255))
					}
				}
			}
			doc.Fields = append(doc.Fields, f)
		}
		doc.Fields = append(doc.Fields, FieldInst{Name: name, Type: 't', Len: 1, Toks: []Tok{{Term: "x", Freq: 1}}})
		b.Docs = append(b.Docs, doc)
	}
	return b
}

// DropTermVectorFlags clears the term-vector option of about one field instance
// in `every` while its tokens keep their locations (chosen by position, no
// random draws): the locations handed in are stored and returned whatever the
// option says, and the composite field of such a document still carries them.
func DropTermVectorFlags(b *Batch, every int) {
	for di := range b.Docs {
		for fi := range b.Docs[di].Fields {
			if (di*5+fi*2+1)%every == 0 {
				b.Docs[di].Fields[fi].TV = false
			}
		}
		for ci := range b.Docs[di].Composite {
			if (di+ci)%every == 1 {
				b.Docs[di].Composite[ci].TV = false
			}
		}
	}
}

// genHuge: a little more than 65536 documents, almost all of them with an _id
// only; a few (spread out, and the last ones, so that numbers >= 65536 carry
// content) have a field with tokens, stored value, doc values, a vector and
// synonym definitions.
func genHuge(rng *rand.Rand, o GenOpts) *Batch {
	b := &Batch{}
	n := 65536 + 40 + rng.Intn(60)
	name := FieldPool[rng.Intn(len(FieldPool))]
	salt := o.VecSalt
	if salt == 0 {
		salt = 1
	}
	h := salt*31 + 3*7 + int('v')
	dims, metric, opt := 2+h%4, Metrics[(h/4)%3], Opts[(h/12)%3]
	for d := 0; d < n; d++ {
		doc := Doc{ID: fmt.Sprintf("%sh%06d", o.IDPrefix, d), IDLast: d%2 == 0}
		if d%4099 == 7 || d >= n-60 || d == 65535 || d == 65536 {
			f := FieldInst{Name: name, Type: 't', TV: true, DV: true, Stored: true, Value: []byte(fmt.Sprintf("v%d", d)), Len: 3}
			t1 := TermPool[d%5]
			f.Toks = []Tok{{Term: t1, Freq: 1, Locs: []Loc{{Pos: 1, Start: 0, End: uint64(len(t1))}}}, {Term: "hh", Freq: 2, Locs: []Loc{{Pos: 2, Start: 5, End: 7}, {Pos: 3, Start: 8, End: 10}}}}
			if t1 == "hh" {
				f.Toks = f.Toks[1:]
			}
			doc.Fields = append(doc.Fields, f)
			if o.Vec && d%3 != 0 {
				doc.Vecs = append(doc.Vecs, VecField{Name: "vec", Dims: dims, Metric: metric, Opt: opt, Vec: genVec(rng, dims)})
			}
		}
		// one term in every document: its postings fill a whole 65536-document container
		doc.Fields = append(doc.Fields, FieldInst{Name: "zdense", Type: 't', Len: 1, Toks: []Tok{{Term: "all", Freq: 1}}})
		b.Docs = append(b.Docs, doc)
	}
	if o.Syn {
		for k := 0; k < 3; k++ {
			b.Docs = append(b.Docs, Doc{ID: fmt.Sprintf("%shsyn%d", o.IDPrefix, k), Syn: []SynField{{Thes: ThesPool[k%2], Pairs: []SynPair{{Term: "big", Syns: []string{"large", fmt.Sprintf("huge%d", k)}}, {Term: TermPool[k], Syns: []string{"x"}}}}}})
		}
	}
	return b
}

// InterleaveFields reorders the field instances of every `every`-th document
// round-robin by name (name[0], tag[0], name[1], tag[1], ... - the shape of an
// array of objects), keeping the order of the instances of each name.
func InterleaveFields(b *Batch, every int) {
	for di := range b.Docs {
		if di%every != every-2 || len(b.Docs[di].Fields) < 3 {
			continue
		}
		var names []string
		by := map[string][]FieldInst{}
		for _, f := range b.Docs[di].Fields {
			if _, ok := by[f.Name]; !ok {
				names = append(names, f.Name)
			}
			by[f.Name] = append(by[f.Name], f)
		}
		out := make([]FieldInst, 0, len(b.Docs[di].Fields))
		for len(out) < len(b.Docs[di].Fields) {
			for _, n := range names {
				if len(by[n]) > 0 {
					out = append(out, by[n][0])
					by[n] = by[n][1:]
				}
			}
		}
		b.Docs[di].Fields = out
	}
}

// TwinWithThinnedSynonyms returns a copy of b under other ids of the same
// length (oldPrefix -> newPrefix) in which some synonym definitions lost their
// last synonym or their last left-hand term: everything a build writes before
// the first changed synonym list has the same size in both.
func TwinWithThinnedSynonyms(b *Batch, rng *rand.Rand, oldPrefix, newPrefix string) *Batch {
	t := b.Clone()
	for di := range t.Docs {
		d := &t.Docs[di]
		if strings.HasPrefix(d.ID, oldPrefix) && len(oldPrefix) == len(newPrefix) {
			d.ID = newPrefix + d.ID[len(oldPrefix):]
		}
		for fi := range d.Syn {
			sf := &d.Syn[fi]
			for pi := range sf.Pairs {
				if n := len(sf.Pairs[pi].Syns); n >= 2 && rng.Intn(2) == 0 {
					sf.Pairs[pi].Syns = sf.Pairs[pi].Syns[:n-1]
				}
			}
			if len(sf.Pairs) >= 2 && rng.Intn(4) == 0 {
				sf.Pairs = sf.Pairs[:len(sf.Pairs)-1]
			}
		}
	}
	return t
}
