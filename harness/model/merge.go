package model

// Dropped is the sentinel new-doc-number of a deleted document.
const Dropped = ^uint64(0)

// Merge is the reference semantics of a segment merge: survivors are numbered
// consecutively in segment order, then document order; everything else is
// carried over under the new numbering.  drops[i] lists the deleted document
// numbers of segs[i] (nil = none).
func Merge(segs []*Seg, drops []map[uint32]bool) (*Seg, [][]uint64) {
	out := &Seg{
		Post:    map[string]map[string][]Hit{},
		DVField: map[string]bool{},
		DV:      map[string][]map[string]bool{},
		Thes:    map[string]map[string][]SynHit{},
		Vec:     map[string]*VecModel{},
		DVMaybe: map[string]bool{},
	}
	newNums := make([][]uint64, len(segs))
	var next uint64
	for i, s := range segs {
		newNums[i] = make([]uint64, s.NumDocs)
		for d := uint64(0); d < s.NumDocs; d++ {
			if drops[i] != nil && drops[i][uint32(d)] {
				newNums[i][d] = Dropped
			} else {
				newNums[i][d] = next
				next++
			}
		}
	}
	out.NumDocs = next
	names := map[string]bool{}
	for _, s := range segs {
		for _, f := range s.Fields {
			names[f] = true
		}
	}
	if len(names) > 0 {
		names["_id"] = true
		out.Fields = fieldOrder(names)
	}
	out.IDs = make([]string, next)
	out.Stored = make([][]StoredVal, next)
	for i, s := range segs {
		for d := uint64(0); d < s.NumDocs; d++ {
			nn := newNums[i][d]
			if nn == Dropped {
				continue
			}
			out.IDs[nn] = s.IDs[d]
			// regroup by the merged field order (names sorted the same way in
			// every segment, so this is the input grouping again)
			byField := map[string][]StoredVal{}
			for _, v := range s.Stored[d] {
				byField[v.Field] = append(byField[v.Field], v)
			}
			var sv []StoredVal
			for _, name := range out.Fields {
				sv = append(sv, byField[name]...)
			}
			out.Stored[nn] = sv
		}
		for f, terms := range s.Post {
			for term, hits := range terms {
				for _, h := range hits {
					nn := newNums[i][h.Doc]
					if nn == Dropped {
						continue
					}
					if out.Post[f] == nil {
						out.Post[f] = map[string][]Hit{}
					}
					nh := h
					nh.Doc = nn
					out.Post[f][term] = append(out.Post[f][term], nh)
				}
			}
		}
		for f := range s.DVField {
			out.DVMaybe[f] = true
		}
		for f := range s.DVMaybe {
			out.DVMaybe[f] = true
		}
		for f, per := range s.DV {
			for d, terms := range per {
				if len(terms) == 0 {
					continue
				}
				nn := newNums[i][d]
				if nn == Dropped {
					continue
				}
				if out.DV[f] == nil {
					out.DV[f] = make([]map[string]bool, next)
					out.DVField[f] = true
				}
				out.DV[f][nn] = terms
			}
		}
		for name, th := range s.Thes {
			if out.Thes[name] == nil {
				out.Thes[name] = map[string][]SynHit{}
			}
			for term, hits := range th {
				for _, h := range hits {
					nn := newNums[i][h.Doc]
					if nn == Dropped {
						continue
					}
					out.Thes[name][term] = addSynHit(out.Thes[name][term], SynHit{Syn: h.Syn, Doc: uint32(nn)})
				}
			}
		}
		for name, vm := range s.Vec {
			for _, e := range vm.Entries {
				nn := newNums[i][e.Doc]
				if nn == Dropped {
					continue
				}
				ovm := out.Vec[name]
				if ovm == nil {
					ovm = &VecModel{Dims: vm.Dims, Metric: vm.Metric, Opt: vm.Opt}
					out.Vec[name] = ovm
				}
				ovm.Entries = append(ovm.Entries, VecEntry{Doc: uint32(nn), Vec: e.Vec})
			}
		}
	}
	// hits were appended in segment order => ascending new numbers already
	for f := range out.DVField {
		delete(out.DVMaybe, f)
	}
	return out, newNums
}
