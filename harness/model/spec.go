// Package model holds the harness's own, zapx-independent description of a
// batch of analysed documents (the "batch spec") and the reference semantics
// computed from it: what every read API of a segment built from that batch
// must answer.  Nothing in this package imports zapx.
package model

import (
	"bytes"
	"crypto/sha256"
	"encoding/binary"
	"encoding/gob"
	"encoding/json"
	"sort"
)

// Loc is one occurrence of a term. Field=="" means "the field it is indexed in".
type Loc struct {
	Field string   `json:"f,omitempty"`
	Pos   uint64   `json:"p"`
	Start uint64   `json:"s"`
	End   uint64   `json:"e"`
	AP    []uint64 `json:"ap,omitempty"`
}

// Tok is one term of one field instance.
type Tok struct {
	Term string `json:"t"`
	Freq int    `json:"q"`
	Locs []Loc  `json:"l,omitempty"`
}

// FieldInst is one visited field instance of a document.
type FieldInst struct {
	Name   string   `json:"n"`
	Type   byte     `json:"ty"`
	Value  []byte   `json:"v,omitempty"`
	AP     []uint64 `json:"ap,omitempty"`
	Stored bool     `json:"st,omitempty"`
	DV     bool     `json:"dv,omitempty"`
	TV     bool     `json:"tv,omitempty"`
	Len    int      `json:"len"`
	Toks   []Tok    `json:"tk,omitempty"`
	// NilFreqs: an instance without tokens hands zapx a nil token-frequency map
	// (as bleve does for fields it did not analyse) instead of an empty one
	NilFreqs bool `json:"nilfreqs,omitempty"`
	// Shape: the instance is a geo-shape field; its encoded shape is one more
	// doc value of the document in this field (when the field has doc values)
	Shape []byte `json:"shape,omitempty"`
}

// SynPair is one (lhs term, synonyms) pair yielded by a synonym field.
type SynPair struct {
	Term string   `json:"t"`
	Syns []string `json:"s"`
}

// SynField is one synonym field (= one synonym definition) of a synonym document.
type SynField struct {
	Thes  string    `json:"th"`
	Pairs []SynPair `json:"p"`
}

// VecField is one vector field instance; len(Vec) is a multiple of Dims.
type VecField struct {
	Name   string    `json:"n"`
	Dims   int       `json:"d"`
	Metric string    `json:"m"`
	Opt    string    `json:"o"`
	Vec    []float32 `json:"v"`
}

// Doc is one document of a batch. The `_id` field is implicit: it is
// materialised by the stub as the first visited field (stored, one token
// equal to the id, frequency 1, analysed length 1, no term vectors).
type Doc struct {
	ID        string      `json:"id"`
	Composite []FieldInst `json:"c,omitempty"`
	Fields    []FieldInst `json:"f,omitempty"`
	Syn       []SynField  `json:"syn,omitempty"`
	Vecs      []VecField  `json:"vec,omitempty"`
	// IDLast: visit the _id field after the other fields instead of first
	// (zapx must not depend on the position).
	IDLast bool `json:"idlast,omitempty"`
	// IDDV: the _id field carries the DocValues option (the API accepts any
	// options on _id; bleve itself does not set this one).
	IDDV bool `json:"iddv,omitempty"`
}

// Batch is the input of one build.
type Batch struct {
	Docs []Doc `json:"docs"`
}

// Fingerprint is a stable content hash of the batch.
func (b *Batch) Fingerprint() uint64 {
	j, _ := json.Marshal(b)
	h := sha256.Sum256(j)
	return binary.BigEndian.Uint64(h[:8])
}

// ---------------------------------------------------------------------------
// reference semantics

// Hit is one expected posting.
type Hit struct {
	Doc     uint64
	Freq    uint64
	NormLen uint64 // Σ analysed lengths of the field's instances in the doc; meaningful only when Freq>0
	Locs    []Loc  // Field resolved to a name
}

// StoredVal is one expected stored value (never `_id`).
type StoredVal struct {
	Field string
	Type  byte
	Value []byte
	AP    []uint64
}

// SynHit is one expected (synonym, defining document) pair.
type SynHit struct {
	Syn string
	Doc uint32
}

// VecEntry is one indexed vector.
type VecEntry struct {
	Doc uint32
	Vec []float32
}

// VecModel describes one vector field.
type VecModel struct {
	Dims    int
	Metric  string
	Opt     string
	Entries []VecEntry
}

// Seg is the reference model of a segment.
type Seg struct {
	NumDocs uint64
	IDs     []string
	Fields  []string                     // `_id` first, rest sorted
	Post    map[string]map[string][]Hit  // field -> term -> hits ascending
	Stored  [][]StoredVal                // per doc, grouped by field (ascending field order), input order within a field
	DVField map[string]bool              // fields indexed with doc values
	DV      map[string][]map[string]bool // field -> per doc -> term set (nil entry = none)
	Thes    map[string]map[string][]SynHit
	Vec     map[string]*VecModel
	// DVMaybe: fields that MAY be reported as doc-value fields without having
	// entries (only set by merges, see MergeModel).
	DVMaybe map[string]bool
}

func fieldOrder(names map[string]bool) []string {
	rv := []string{"_id"}
	rest := make([]string, 0, len(names))
	for n := range names {
		if n != "_id" {
			rest = append(rest, n)
		}
	}
	sort.Strings(rest)
	return append(rv, rest...)
}

// Build computes the reference model of the segment built from b.
func Build(b *Batch) *Seg {
	s := &Seg{
		NumDocs: uint64(len(b.Docs)),
		Post:    map[string]map[string][]Hit{},
		DVField: map[string]bool{},
		DV:      map[string][]map[string]bool{},
		Thes:    map[string]map[string][]SynHit{},
		Vec:     map[string]*VecModel{},
		DVMaybe: map[string]bool{},
	}
	if len(b.Docs) == 0 {
		s.Fields = nil
		return s
	}
	names := map[string]bool{"_id": true}
	for _, d := range b.Docs {
		for _, f := range d.Composite {
			names[f.Name] = true
		}
		for _, f := range d.Fields {
			names[f.Name] = true
		}
		for _, sf := range d.Syn {
			names[sf.Thes] = true
		}
		for _, vf := range d.Vecs {
			names[vf.Name] = true
		}
	}
	s.Fields = fieldOrder(names)
	s.Post["_id"] = map[string][]Hit{}
	for dn, d := range b.Docs {
		s.IDs = append(s.IDs, d.ID)
		s.Post["_id"][d.ID] = append(s.Post["_id"][d.ID], Hit{Doc: uint64(dn), Freq: 1, NormLen: 1})
		if d.IDDV {
			s.DVField["_id"] = true
		}

		// index: merge same-named instances in visiting order (composite first)
		type acc struct {
			len   uint64
			order []string
			toks  map[string]*Hit
		}
		accs := map[string]*acc{}
		var accOrder []string
		visit := func(f *FieldInst) {
			a := accs[f.Name]
			if a == nil {
				a = &acc{toks: map[string]*Hit{}}
				accs[f.Name] = a
				accOrder = append(accOrder, f.Name)
			}
			a.len += uint64(f.Len)
			if f.DV {
				s.DVField[f.Name] = true
			}
			for _, t := range f.Toks {
				h := a.toks[t.Term]
				if h == nil {
					h = &Hit{Doc: uint64(dn)}
					a.toks[t.Term] = h
					a.order = append(a.order, t.Term)
				}
				h.Freq += uint64(t.Freq)
				for _, l := range t.Locs {
					ll := l
					if ll.Field == "" {
						ll.Field = f.Name
					}
					if len(ll.AP) == 0 {
						ll.AP = nil
					}
					h.Locs = append(h.Locs, ll)
				}
			}
		}
		for i := range d.Composite {
			visit(&d.Composite[i])
		}
		for i := range d.Fields {
			visit(&d.Fields[i])
		}
		for _, name := range accOrder {
			a := accs[name]
			if s.Post[name] == nil {
				s.Post[name] = map[string][]Hit{}
			}
			for _, term := range a.order {
				h := a.toks[term]
				h.NormLen = a.len
				s.Post[name][term] = append(s.Post[name][term], *h)
			}
		}

		// stored
		var sv []StoredVal
		byField := map[string][]StoredVal{}
		for _, f := range d.Fields {
			if f.Stored {
				byField[f.Name] = append(byField[f.Name], StoredVal{Field: f.Name, Type: f.Type, Value: f.Value, AP: f.AP})
			}
		}
		for _, name := range s.Fields {
			sv = append(sv, byField[name]...)
		}
		s.Stored = append(s.Stored, sv)

		// thesauri
		for _, sf := range d.Syn {
			if s.Thes[sf.Thes] == nil {
				s.Thes[sf.Thes] = map[string][]SynHit{}
			}
			for _, p := range sf.Pairs {
				for _, syn := range p.Syns {
					s.Thes[sf.Thes][p.Term] = addSynHit(s.Thes[sf.Thes][p.Term], SynHit{Syn: syn, Doc: uint32(dn)})
				}
				if len(p.Syns) == 0 {
					if _, ok := s.Thes[sf.Thes][p.Term]; !ok {
						s.Thes[sf.Thes][p.Term] = nil
					}
				}
			}
		}

		// vectors
		for _, vf := range d.Vecs {
			vm := s.Vec[vf.Name]
			if vm == nil {
				vm = &VecModel{Dims: vf.Dims, Metric: vf.Metric, Opt: vf.Opt}
				s.Vec[vf.Name] = vm
			}
			for i := 0; i+vf.Dims <= len(vf.Vec); i += vf.Dims {
				vm.Entries = append(vm.Entries, VecEntry{Doc: uint32(dn), Vec: vf.Vec[i : i+vf.Dims]})
			}
		}
	}
	// terms with no pair never reach the thesaurus
	for _, th := range s.Thes {
		for t, hs := range th {
			if len(hs) == 0 {
				delete(th, t)
			}
		}
	}
	// doc values: every term a doc has in a dv field
	for f := range s.DVField {
		per := make([]map[string]bool, len(b.Docs))
		for term, hits := range s.Post[f] {
			for _, h := range hits {
				if per[h.Doc] == nil {
					per[h.Doc] = map[string]bool{}
				}
				per[h.Doc][term] = true
			}
		}
		// geo shapes: the encoded shape of the last shape instance of the field in
		// a document is one more doc value of that document
		for dn := range b.Docs {
			var shape []byte
			for fi := range b.Docs[dn].Fields {
				if fld := &b.Docs[dn].Fields[fi]; fld.Name == f && fld.Shape != nil {
					shape = fld.Shape
				}
			}
			if shape != nil {
				if per[dn] == nil {
					per[dn] = map[string]bool{}
				}
				per[dn][string(shape)] = true
			}
		}
		s.DV[f] = per
	}
	return s
}

func addSynHit(l []SynHit, h SynHit) []SynHit {
	for _, x := range l {
		if x == h {
			return l
		}
	}
	return append(l, h)
}

// Terms returns the sorted terms of a field.
func (s *Seg) Terms(field string) []string {
	m := s.Post[field]
	rv := make([]string, 0, len(m))
	for t := range m {
		rv = append(rv, t)
	}
	sort.Strings(rv)
	return rv
}

// ThesTerms returns the sorted lhs terms of a thesaurus.
func (s *Seg) ThesTerms(name string) []string {
	m := s.Thes[name]
	rv := make([]string, 0, len(m))
	for t := range m {
		rv = append(rv, t)
	}
	sort.Strings(rv)
	return rv
}

// HasField reports whether name is one of the segment's fields.
func (s *Seg) HasField(name string) bool {
	for _, f := range s.Fields {
		if f == name {
			return true
		}
	}
	return false
}

// Clone returns a deep copy of the batch.
func (b *Batch) Clone() *Batch {
	var buf bytes.Buffer
	if err := gob.NewEncoder(&buf).Encode(b); err != nil {
		panic(err)
	}
	out := &Batch{}
	if err := gob.NewDecoder(&buf).Decode(out); err != nil {
		panic(err)
	}
	return out
}
