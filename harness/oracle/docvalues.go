package oracle

import (
	"math/rand"
	"sort"

	segment "github.com/blevesearch/scorch_segment_api/v2"

	"verif/harness/model"
)

// DVTarget is one segment + its model for doc-value visiting.
type DVTarget struct {
	Tag string
	Seg segment.Segment
	M   *model.Seg
}

func dvFieldsOf(m *model.Seg, extra []string) []string {
	var fs []string
	for f := range m.DVField {
		fs = append(fs, f)
	}
	for f := range m.DVMaybe {
		fs = append(fs, f)
	}
	sort.Strings(fs)
	// fields without doc values and unknown names must yield nothing
	seen := map[string]bool{}
	for _, f := range fs {
		seen[f] = true
	}
	for _, f := range append(append([]string{}, m.Fields...), extra...) {
		if !seen[f] {
			seen[f] = true
			fs = append(fs, f)
		}
	}
	return fs
}

// CheckDVFieldList checks VisitableDocValueFields against the model.
func CheckDVFieldList(r *Report, t DVTarget) {
	dv, ok := t.Seg.(segment.DocValueVisitable)
	if !ok {
		r.Fail("dv-iface", "%s: segment is not DocValueVisitable", t.Tag)
		return
	}
	got, err := dv.VisitableDocValueFields()
	if err != nil {
		r.Fail("dv-fields-err", "%s: VisitableDocValueFields: %v", t.Tag, err)
		return
	}
	seen := map[string]bool{}
	for _, f := range got {
		if seen[f] {
			r.Fail("dv-fields-dup", "%s: VisitableDocValueFields lists %q twice: %q", t.Tag, f, got)
		}
		seen[f] = true
		if !t.M.DVField[f] && !t.M.DVMaybe[f] {
			r.Fail("dv-fields-extra", "%s: VisitableDocValueFields lists %q which was not indexed with doc values (%q)", t.Tag, f, got)
		}
	}
	if t.M.NumDocs > 0 {
		for f := range t.M.DVField {
			if !seen[f] {
				r.Fail("dv-fields-missing", "%s: VisitableDocValueFields %q lacks %q", t.Tag, got, f)
			}
		}
	}
}

// visitOne visits (doc, fields) on target t with state st and compares.
func visitOne(r *Report, t DVTarget, fields []string, doc uint64, st segment.DocVisitState, disc string) segment.DocVisitState {
	dv := t.Seg.(segment.DocValueVisitable)
	got := map[string]map[string]int{}
	st2, err := dv.VisitDocValues(doc, fields, func(field string, term []byte) {
		if got[field] == nil {
			got[field] = map[string]int{}
		}
		got[field][string(term)]++
	}, st)
	if err != nil {
		r.Fail("dv-err", "%s[%s]: VisitDocValues(%d): %v", t.Tag, disc, doc, err)
		return st2
	}
	for f, terms := range got {
		var exp map[string]bool
		if per := t.M.DV[f]; per != nil && doc < uint64(len(per)) {
			exp = per[doc]
		}
		for term, n := range terms {
			if !exp[term] {
				r.Fail("dv-extra", "%s[%s]: doc %d field %q: unexpected term %s", t.Tag, disc, doc, f, short([]byte(term)))
			} else if n != 1 {
				r.Fail("dv-dup", "%s[%s]: doc %d field %q: term %s reported %d times", t.Tag, disc, doc, f, short([]byte(term)), n)
			}
		}
	}
	for _, f := range fields {
		per := t.M.DV[f]
		if per == nil || doc >= uint64(len(per)) {
			continue
		}
		for term := range per[doc] {
			if got[f][term] == 0 {
				r.Fail("dv-missing", "%s[%s]: doc %d field %q: term %s not reported (got %d terms)", t.Tag, disc, doc, f, short([]byte(term)), len(got[f]))
			}
		}
		if len(per[doc]) > 0 {
			r.Inc("dv_doc_fields_compared", 1)
		}
	}
	r.Inc("dv_visits", 1)
	return st2
}

// visitWidened calls VisitDocValues with the list `call` on a state made for
// `own` (a prefix of it) and compares only the fields of `own`.
func visitWidened(r *Report, t DVTarget, own, call []string, doc uint64, st segment.DocVisitState) segment.DocVisitState {
	dv := t.Seg.(segment.DocValueVisitable)
	mine := map[string]bool{}
	for _, f := range own {
		mine[f] = true
	}
	got := map[string]map[string]int{}
	st2, err := dv.VisitDocValues(doc, call, func(field string, term []byte) {
		if !mine[field] {
			return
		}
		if got[field] == nil {
			got[field] = map[string]int{}
		}
		got[field][string(term)]++
	}, st)
	if err != nil {
		r.Fail("dv-err", "%s[widened]: VisitDocValues(%d): %v", t.Tag, doc, err)
		return st2
	}
	for _, f := range own {
		var exp map[string]bool
		if per := t.M.DV[f]; per != nil && doc < uint64(len(per)) {
			exp = per[doc]
		}
		for term, n := range got[f] {
			if !exp[term] || n != 1 {
				r.Fail("dv-extra", "%s[widened]: doc %d field %q: term %s reported %d times, expected: %v", t.Tag, doc, f, short([]byte(term)), n, exp[term])
			}
		}
		for term := range exp {
			if got[f][term] == 0 {
				r.Fail("dv-missing", "%s[widened]: doc %d field %q: term %s not reported", t.Tag, doc, f, short([]byte(term)))
			}
		}
	}
	r.Inc("dv_visits_with_a_widened_field_list", 1)
	return st2
}

// CheckDocValues runs the visit disciplines of C03 over one or two targets.
// chunk is the doc-value chunk size in effect (for counters only).
func CheckDocValues(r *Report, ts []DVTarget, rng *rand.Rand, chunk uint64, extraFields []string) {
	for _, t := range ts {
		CheckDVFieldList(r, t)
		if _, ok := t.Seg.(segment.DocValueVisitable); !ok {
			return
		}
	}
	for _, t := range ts {
		fields := dvFieldsOf(t.M, extraFields)
		n := t.M.NumDocs
		// discipline 1: ascending, fresh state
		var st segment.DocVisitState
		last := uint64(1 << 62)
		for d := uint64(0); d < n; d++ {
			st = visitOne(r, t, fields, d, st, "asc")
			if chunk > 0 && d/chunk != last {
				r.Inc("dv_chunk_switches", 1)
				last = d / chunk
			}
		}
		// (document numbers >= Count are outside C03: never visited)
		// discipline 2: descending, state reused from the ascending pass
		for d := n; d > 0; d-- {
			st = visitOne(r, t, fields, d-1, st, "desc-reuse")
		}
		// discipline 3: random with repeats, fresh state
		st = nil
		if n > 0 {
			last = 1 << 62
			for i := uint64(0); i < 2*n+4; i++ {
				d := uint64(rng.Int63n(int64(n)))
				st = visitOne(r, t, fields, d, st, "random")
				if chunk > 0 && d/chunk != last {
					r.Inc("dv_chunk_switches", 1)
					last = d / chunk
				}
			}
		}
		// discipline 4: a fresh state per visit
		for d := uint64(0); d < n; d += 1 + n/16 {
			visitOne(r, t, fields, d, nil, "fresh")
		}
		// a field subset with its own state
		if len(fields) > 1 {
			sub := fields[:1+rng.Intn(len(fields)-1)]
			var st2 segment.DocVisitState
			for d := uint64(0); d < n; d++ {
				st2 = visitOne(r, t, sub, d, st2, "subset")
			}
			// that state is then handed a wider field list (same segment). What the
			// added fields yield is not part of C03 (state reuse is promised for the
			// same field list); the fields the state was made for must stay exact, and
			// the call is an ordinary concurrent read for C11
			for d := uint64(0); d < n; d += 1 + n/8 {
				st2 = visitWidened(r, t, sub, fields, d, st2)
			}
			// and a state made for one doc-value field only, widened to all of them
			if len(t.M.DVField) >= 2 && n > 0 {
				one := fields[:1]
				var st3 segment.DocVisitState
				st3 = visitOne(r, t, one, 0, st3, "one-field")
				st3 = visitOne(r, t, one, n-1, st3, "one-field")
				for d := uint64(0); d < n; d += 1 + n/8 {
					st3 = visitWidened(r, t, one, fields, d, st3)
				}
			}
		}
	}
	// discipline 5: one state alternating between two segments, same field list
	if len(ts) >= 2 {
		a, b := ts[0], ts[1]
		fs := map[string]bool{}
		for _, f := range dvFieldsOf(a.M, nil) {
			fs[f] = true
		}
		for _, f := range dvFieldsOf(b.M, nil) {
			fs[f] = true
		}
		var fields []string
		for f := range fs {
			fields = append(fields, f)
		}
		sort.Strings(fields)
		fields = append(fields, extraFields...)
		var st segment.DocVisitState
		steps := int(a.M.NumDocs + b.M.NumDocs)
		for i := 0; i < steps+2; i++ {
			t := a
			if i%2 == 1 || (i%5 == 4) {
				t = b
			}
			if t.M.NumDocs == 0 {
				continue
			}
			d := uint64(rng.Int63n(int64(t.M.NumDocs)))
			st = visitOne(r, t, fields, d, st, "alternate")
			r.Inc("dv_state_cross_segment", 1)
		}
	}
}
