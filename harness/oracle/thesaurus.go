package oracle

import (
	"sort"

	"github.com/RoaringBitmap/roaring/v2"
	segment "github.com/blevesearch/scorch_segment_api/v2"

	"verif/harness/model"
)

// ThesOpts tunes CheckThesaurus.
type ThesOpts struct {
	UnknownNames []string
	UnknownTerms []string
	Excepts      [][]uint32 // exclusion sets to try in addition to nil / empty / all
}

func drainThesIter(r *Report, where string, it segment.ThesaurusIterator) ([]string, bool) {
	var out []string
	for {
		e, err := it.Next()
		if err != nil {
			r.Fail("thes-iter-err", "%s: %v", where, err)
			return out, false
		}
		if e == nil {
			// a finished enumeration stays finished
			if e2, err := it.Next(); err != nil || e2 != nil {
				r.Fail("thes-iter-after-end", "%s: call after the end of the term enumeration returned %v, %v", where, e2, err)
			}
			return out, true
		}
		out = append(out, e.Term)
	}
}

// CheckThesaurus: slice "thesaurus" of the full-surface oracle (C12, C13).
func CheckThesaurus(r *Report, tag string, seg segment.Segment, m *model.Seg, o ThesOpts) {
	ts, ok := seg.(segment.ThesaurusSegment)
	if !ok {
		r.Fail("thes-iface", "%s: segment is not a ThesaurusSegment", tag)
		return
	}
	names := make([]string, 0, len(m.Thes))
	for n := range m.Thes {
		names = append(names, n)
	}
	sort.Strings(names)
	// ordinary fields and unknown names are "unknown thesauri"
	unknown := append([]string{}, o.UnknownNames...)
	for _, f := range m.Fields {
		if _, ok := m.Thes[f]; !ok {
			unknown = append(unknown, f)
		}
	}
	// every lookup key travels in one buffer that is overwritten for the next lookup
	// (a caller's scratch key): nothing may depend on the key after the call returned
	keyBuf := make([]byte, 0, 64)
	key := func(s string) []byte {
		keyBuf = append(keyBuf[:0], s...)
		return keyBuf
	}
	var sl, slHit segment.SynonymsList // latest list; latest list that came from a successful lookup
	var si, siHit segment.SynonymsIterator
	for _, name := range append(names, unknown...) {
		th, err := ts.Thesaurus(name)
		if err != nil || th == nil {
			r.Fail("thes-err", "%s: Thesaurus(%q): %v", tag, name, err)
			continue
		}
		terms := m.ThesTerms(name)
		where := tag + ": thesaurus " + name
		got, ok := drainThesIter(r, where, th.AutomatonIterator(nil, nil, nil))
		if ok {
			same := len(got) == len(terms)
			for i := 0; same && i < len(got); i++ {
				same = got[i] == terms[i]
			}
			if !same {
				r.Fail("thes-terms", "%s: terms %q, want %q", where, got, terms)
			}
		}
		// a range
		if len(terms) >= 2 {
			lo, hi := terms[0], terms[len(terms)-1]
			got, ok := drainThesIter(r, where, th.AutomatonIterator(nil, []byte(lo), []byte(hi)))
			if ok && (len(got) != len(terms)-1 || (len(got) > 0 && got[0] != lo)) {
				r.Fail("thes-range", "%s: range [%q,%q) gives %q, want %q", where, lo, hi, got, terms[:len(terms)-1])
			}
		}
		r.Inc("thesauri_checked", 1)
		// unknown terms first and in between: whatever a miss returned (possibly a
		// shared "empty" sentinel) is the recycled object of the following hit
		var lookups []string
		for k, t := range terms {
			if k < len(o.UnknownTerms) {
				lookups = append(lookups, o.UnknownTerms[k])
			}
			lookups = append(lookups, t)
		}
		if len(terms) < len(o.UnknownTerms) {
			lookups = append(lookups, o.UnknownTerms[len(terms):]...)
		}
		for lookupNo, term := range lookups {
			exp := m.Thes[name][term]
			c, err := th.Contains([]byte(term))
			if err != nil || c != (len(exp) > 0) {
				r.Fail("thes-contains", "%s: Contains(%q)=%v,%v want %v", where, term, c, err, len(exp) > 0)
			}
			excepts := [][]uint32{nil, {}}
			docs := map[uint32]bool{}
			for _, h := range exp {
				docs[h.Doc] = true
			}
			var all []uint32
			for d := range docs {
				all = append(all, d)
				excepts = append(excepts, []uint32{d})
			}
			if len(all) > 1 {
				excepts = append(excepts, all)
			}
			excepts = append(excepts, o.Excepts...)
			for ei, ex := range excepts {
				var bm *roaring.Bitmap
				if ex != nil {
					bm = roaring.BitmapOf(ex...)
				}
				// alternate fresh and recycled list/iterator objects
				var preL segment.SynonymsList
				var preI segment.SynonymsIterator
				if ei%2 == 1 || (ei == 0 && len(exp) > 0 && sl != nil && lookupNo%2 == 1) {
					preL, preI = sl, si
					if slHit != nil && (len(exp) == 0 || ei%4 == 3) {
						// a list that served a successful lookup, recycled for a miss
						// (unknown term / unknown thesaurus) or another hit
						preL, preI = slHit, siHit
						r.Inc("thes_prealloc_hit_list_reused", 1)
					}
					r.Inc("thes_prealloc_reuse", 1)
				}
				l, err := th.SynonymsList(key(term), bm, preL)
				r.Inc("syn_lookups_through_a_reused_key_buffer", 1)
				if err != nil || l == nil {
					r.Fail("thes-list-err", "%s: SynonymsList(%q): %v", where, term, err)
					continue
				}
				it := l.Iterator(preI)
				seen := map[model.SynHit]int{}
				steps := 0
				for {
					if steps == 1 && ei%2 == 1 {
						// in the middle of this iteration: a lookup that misses must be empty
						// and must not disturb it (shared "empty" sentinels stay empty)
						if ml, err := th.SynonymsList([]byte("\xfe\xfemiss"), nil, nil); err != nil || ml == nil {
							r.Fail("thes-list-err", "%s: lookup of an unknown term during an iteration: %v", where, err)
						} else if ms, err := ml.Iterator(nil).Next(); err != nil || ms != nil {
							r.Fail("thes-extra", "%s: unknown term yields a synonym during an iteration of %q (%v)", where, term, err)
						}
					}
					steps++
					s, err := it.Next()
					if err != nil {
						r.Fail("thes-next-err", "%s: term %q: %v", where, term, err)
						break
					}
					if s == nil {
						if s2, err := it.Next(); err != nil || s2 != nil {
							r.Fail("thes-iter-after-end", "%s: term %q: call after the last synonym returned %v, %v", where, term, s2, err)
						}
						break
					}
					seen[model.SynHit{Syn: s.Term(), Doc: s.Number()}]++
				}
				want := map[model.SynHit]bool{}
				for _, h := range exp {
					if bm == nil || !bm.Contains(h.Doc) {
						want[h] = true
					}
				}
				for h, n := range seen {
					if !want[h] {
						r.Fail("thes-extra", "%s: term %q except %v: unexpected pair (%q, doc %d)", where, term, ex, h.Syn, h.Doc)
					} else if n != 1 {
						r.Fail("thes-dup", "%s: term %q except %v: pair (%q, doc %d) %d times", where, term, ex, h.Syn, h.Doc, n)
					}
				}
				for h := range want {
					if seen[h] == 0 {
						r.Fail("thes-missing", "%s: term %q except %v: pair (%q, doc %d) missing", where, term, ex, h.Syn, h.Doc)
					}
				}
				// two iterators of the same list, the first one paused while the second runs:
				// each yields every pair once
				if len(want) >= 2 && ei%3 == 0 {
					a := l.Iterator(nil)
					seenA := map[model.SynHit]int{}
					if s, err := a.Next(); err == nil && s != nil {
						seenA[model.SynHit{Syn: s.Term(), Doc: s.Number()}]++
					}
					b := l.Iterator(nil)
					nb := 0
					for {
						s, err := b.Next()
						if err != nil || s == nil {
							break
						}
						nb++
					}
					for {
						s, err := a.Next()
						if err != nil || s == nil {
							break
						}
						seenA[model.SynHit{Syn: s.Term(), Doc: s.Number()}]++
					}
					bad := nb != len(want) || len(seenA) != len(want)
					for h, n := range seenA {
						bad = bad || !want[h] || n != 1
					}
					if bad {
						r.Fail("thes-two-iterators", "%s: term %q except %v: a paused iterator and a second iterator of the same list yield %d and %d pairs (%v), want %d each", where, term, ex, len(seenA), nb, seenA, len(want))
					}
					r.Inc("syn_lists_with_two_iterators", 1)
				}
				r.Inc("syn_pairs_compared", int64(len(want)))
				r.Inc("syn_lookups", 1)
				if sl0, ok := l.(segment.SynonymsList); ok {
					sl = sl0
				}
				si = it
				if len(want) > 0 {
					slHit, siHit = l, it
				}
			}
		}
	}
}
