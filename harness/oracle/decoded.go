package oracle

import (
	"bytes"
	"sort"

	"verif/harness/model"
	"verif/harness/zapdec"
)

// CompareDecoded compares what the independent v16 decoder read from a file
// with the model of what went in (C09, forward direction).
func CompareDecoded(r *Report, tag string, d *zapdec.Decoded, m *model.Seg, mode uint32) {
	if d.Footer.NumDocs != m.NumDocs || d.Footer.ChunkMode != mode {
		r.Fail("dec-footer", "%s: footer (docs %d, mode %d), want (%d, %d)", tag, d.Footer.NumDocs, d.Footer.ChunkMode, m.NumDocs, mode)
	}
	var names []string
	byName := map[string]*zapdec.Field{}
	for _, f := range d.Fields {
		if f != nil {
			names = append(names, f.Name)
			byName[f.Name] = f
		}
	}
	want := append([]string{}, m.Fields...)
	sort.Strings(names)
	sort.Strings(want)
	if len(names) != len(want) {
		r.Fail("dec-fields", "%s: decoded fields %q, want %q", tag, names, want)
		return
	}
	for i := range names {
		if names[i] != want[i] {
			r.Fail("dec-fields", "%s: decoded fields %q, want %q", tag, names, want)
			return
		}
	}
	fieldName := func(id uint64) string {
		if id < uint64(len(d.Fields)) && d.Fields[id] != nil {
			return d.Fields[id].Name
		}
		return "<bad field id>"
	}
	// postings
	for _, fn := range m.Fields {
		f := byName[fn]
		terms := m.Terms(fn)
		if len(f.Terms) != len(terms) {
			r.Fail("dec-terms", "%s: field %q: decoded %d terms %q, want %d", tag, fn, len(f.Terms), firstStrs(f.Terms, 6), len(terms))
			continue
		}
		for i, t := range terms {
			if f.Terms[i] != t {
				r.Fail("dec-terms", "%s: field %q: term %d is %s, want %s", tag, fn, i, short([]byte(f.Terms[i])), short([]byte(t)))
				break
			}
			hits := m.Post[fn][t]
			got := f.Post[t]
			if len(got) != len(hits) {
				r.Fail("dec-hits", "%s: field %q term %s: %d hits decoded, want %d", tag, fn, short([]byte(t)), len(got), len(hits))
				continue
			}
			for k := range hits {
				g, e := &got[k], &hits[k]
				bad := g.Doc != e.Doc || g.Freq != e.Freq || (e.Freq > 0 && g.NormBits != e.NormLen) || len(g.Locs) != len(e.Locs)
				for l := 0; !bad && l < len(e.Locs); l++ {
					gl, el := &g.Locs[l], &e.Locs[l]
					bad = fieldName(gl.FieldID) != el.Field || gl.Pos != el.Pos || gl.Start != el.Start || gl.End != el.End || !eqU64s(gl.AP, el.AP)
				}
				if bad {
					r.Fail("dec-hit", "%s: field %q term %s hit %d: decoded %+v, want %+v", tag, fn, short([]byte(t)), k, *g, *e)
					break
				}
				if g.OneHit {
					r.Inc("dec_onehit_entries", 1)
				}
			}
			r.Inc("dec_hits_compared", int64(len(hits)))
		}
		// doc values
		isDV := m.DVField[fn]
		if f.HasDV && !isDV && !m.DVMaybe[fn] {
			r.Fail("dec-dv-extra", "%s: field %q has a doc-value block but was not indexed with doc values", tag, fn)
		}
		if isDV && !f.HasDV && m.NumDocs > 0 {
			r.Fail("dec-dv-missing", "%s: field %q has no doc-value block", tag, fn)
		}
		if f.HasDV {
			per := m.DV[fn]
			for doc, ts := range f.DV {
				var exp map[string]bool
				if doc < uint64(len(per)) {
					exp = per[doc]
				}
				if len(ts) != len(exp) {
					r.Fail("dec-dv", "%s: field %q doc %d: decoded doc values %q, want %d terms", tag, fn, doc, firstStrs(ts, 6), len(exp))
					continue
				}
				for _, t := range ts {
					if !exp[t] {
						r.Fail("dec-dv", "%s: field %q doc %d: decoded unexpected doc value %s", tag, fn, doc, short([]byte(t)))
					}
				}
			}
			for doc, exp := range per {
				if len(exp) > 0 && len(f.DV[uint64(doc)]) == 0 {
					r.Fail("dec-dv", "%s: field %q doc %d: no doc values decoded, want %d terms", tag, fn, doc, len(exp))
				}
			}
			r.Inc("dec_dv_fields", 1)
		}
		// thesaurus
		if th, ok := m.Thes[fn]; ok {
			if !f.HasThes {
				// a thesaurus without any surviving definition may have no block at all
				if len(th) > 0 {
					r.Fail("dec-thes-missing", "%s: field %q has no thesaurus block", tag, fn)
				}
			} else {
				tt := m.ThesTerms(fn)
				if len(tt) != len(f.ThesTerms) {
					r.Fail("dec-thes-terms", "%s: thesaurus %q: decoded terms %q, want %q", tag, fn, firstStrs(f.ThesTerms, 6), firstStrs(tt, 6))
				} else {
					for i, t := range tt {
						if f.ThesTerms[i] != t {
							r.Fail("dec-thes-terms", "%s: thesaurus %q: term %d is %q, want %q", tag, fn, i, f.ThesTerms[i], t)
							break
						}
						got := map[zapdec.SynPair]bool{}
						for _, p := range f.Thes[t] {
							got[p] = true
						}
						if len(got) != len(th[t]) {
							r.Fail("dec-thes-pairs", "%s: thesaurus %q term %q: %d pairs decoded, want %d", tag, fn, t, len(got), len(th[t]))
						}
						for _, h := range th[t] {
							if !got[zapdec.SynPair{Syn: h.Syn, Doc: h.Doc}] {
								r.Fail("dec-thes-pairs", "%s: thesaurus %q term %q: pair (%q, %d) not decoded", tag, fn, t, h.Syn, h.Doc)
							}
						}
						r.Inc("dec_syn_pairs_compared", int64(len(th[t])))
					}
				}
			}
		} else if f.HasThes {
			r.Fail("dec-thes-extra", "%s: field %q has a thesaurus block but is no thesaurus", tag, fn)
		}
		// vector envelope
		if vm := m.Vec[fn]; vm != nil {
			if f.Vec == nil {
				r.Fail("dec-vec-missing", "%s: field %q has no vector section", tag, fn)
			} else {
				wantDocs := map[uint64]int{}
				for _, e := range vm.Entries {
					wantDocs[uint64(e.Doc)]++
				}
				gotDocs := map[uint64]int{}
				for _, doc := range f.Vec.IDToDoc {
					gotDocs[doc]++
				}
				bad := f.Vec.NumVecs != uint64(len(vm.Entries)) || len(gotDocs) != len(wantDocs)
				for doc, n := range wantDocs {
					if gotDocs[doc] != n {
						bad = true
					}
				}
				optWant := map[string]uint64{"recall": 0, "latency": 1, "memory-efficient": 2}[vm.Opt]
				if bad || f.Vec.Opt != optWant {
					r.Fail("dec-vec", "%s: field %q vector envelope: %d vectors, opt %d, docs %v; want %d vectors, opt %d, docs %v", tag, fn, f.Vec.NumVecs, f.Vec.Opt, gotDocs, len(vm.Entries), optWant, wantDocs)
				}
				if !bytes.HasPrefix(f.Vec.Blob, []byte("FKFS1")) {
					r.Fail("dec-vec-blob", "%s: field %q: index blob of %d bytes does not start at the recorded offset", tag, fn, len(f.Vec.Blob))
				}
				r.Inc("dec_vector_sections", 1)
			}
		} else if f.Vec != nil {
			r.Fail("dec-vec-extra", "%s: field %q carries a vector section but has no vectors", tag, fn)
		}
	}
	// stored
	if uint64(len(d.IDs)) != m.NumDocs {
		r.Fail("dec-stored-count", "%s: %d stored documents decoded, want %d", tag, len(d.IDs), m.NumDocs)
		return
	}
	for doc := range d.IDs {
		if string(d.IDs[doc]) != m.IDs[doc] {
			r.Fail("dec-id", "%s: doc %d id %q, want %q", tag, doc, d.IDs[doc], m.IDs[doc])
		}
		exp := m.Stored[doc]
		got := d.Stored[doc]
		if len(got) != len(exp) {
			r.Fail("dec-stored", "%s: doc %d: %d stored values decoded, want %d", tag, doc, len(got), len(exp))
			continue
		}
		for k := range exp {
			g, e := &got[k], &exp[k]
			if fieldName(g.FieldID) != e.Field || g.Type != e.Type || !bytes.Equal(g.Value, e.Value) || !eqU64s(g.AP, e.AP) {
				r.Fail("dec-stored", "%s: doc %d value %d: decoded (%q,%c,%s,%v), want (%q,%c,%s,%v)", tag, doc, k, fieldName(g.FieldID), g.Type, short(g.Value), g.AP, e.Field, e.Type, short(e.Value), e.AP)
			}
		}
		r.Inc("dec_stored_values_compared", int64(len(exp)))
	}
}

func firstStrs(s []string, n int) []string {
	if len(s) > n {
		return s[:n]
	}
	return s
}
