package oracle

import (
	"math"

	segment "github.com/blevesearch/scorch_segment_api/v2"

	"verif/harness/model"
)

// ChunkSize re-states the documented chunk-size rule (README/chunk modes);
// used only for the evidence counters (how many terms span several chunks).
func ChunkSize(mode uint32, card, numDocs uint64) uint64 {
	switch {
	case mode == 0:
		return 0
	case mode <= 1024:
		return uint64(mode)
	case mode == 1025:
		if card <= 1024 {
			return numDocs
		}
		return 1024
	case mode == 1026:
		return numDocs / (card/1024 + 1)
	}
	return 0
}

// ExpNorm is the norm a hit of a field of total analysed length l must report.
func ExpNorm(l uint64) float64 {
	return float64(float32(1.0 / math.Sqrt(float64(l))))
}

func eqU64s(a, b []uint64) bool {
	if len(a) != len(b) {
		return false
	}
	for i := range a {
		if a[i] != b[i] {
			return false
		}
	}
	return true
}

// CompareHit compares one returned posting with the model hit. flags:
// whether freq/norm and locations were requested.
func CompareHit(r *Report, where string, p segment.Posting, h *model.Hit, wantFreqNorm, wantLocs bool) bool {
	ok := true
	if p.Number() != h.Doc {
		r.Fail("hit-docnum", "%s: doc %d, want %d", where, p.Number(), h.Doc)
		return false
	}
	if wantFreqNorm {
		if p.Frequency() != h.Freq {
			r.Fail("hit-freq", "%s doc %d: freq %d, want %d", where, h.Doc, p.Frequency(), h.Freq)
			ok = false
		}
		if h.Freq > 0 {
			if got, want := p.Norm(), ExpNorm(h.NormLen); got != want {
				r.Fail("hit-norm", "%s doc %d: norm %v, want %v (len %d)", where, h.Doc, got, want, h.NormLen)
				ok = false
			}
		}
	}
	if wantLocs {
		locs := p.Locations()
		if len(locs) != len(h.Locs) {
			r.Fail("hit-numlocs", "%s doc %d: %d locations, want %d", where, h.Doc, len(locs), len(h.Locs))
			return false
		}
		for i, l := range locs {
			e := &h.Locs[i]
			if l.Field() != e.Field || l.Pos() != e.Pos || l.Start() != e.Start || l.End() != e.End ||
				!eqU64s(l.ArrayPositions(), e.AP) {
				r.Fail("hit-loc", "%s doc %d loc %d: got (%q,%d,%d,%d,%v) want (%q,%d,%d,%d,%v)", where, h.Doc, i,
					l.Field(), l.Pos(), l.Start(), l.End(), l.ArrayPositions(), e.Field, e.Pos, e.Start, e.End, e.AP)
				ok = false
			}
		}
		r.Inc("locs_compared", int64(len(locs)))
	}
	return ok
}

// PostOpts tunes CheckPostings.
type PostOpts struct {
	ChunkMode    uint32   // for counters only
	AbsentFields []string // names not in the batch
	AbsentTerms  []string // candidate absent terms (filtered against the model per field)
	MaxTerms     int      // 0 = all terms of every field
}

// CheckPostings: slice "postings" of the full-surface oracle (C01, C06).
func CheckPostings(r *Report, tag string, seg segment.Segment, m *model.Seg, o PostOpts) {
	fields := append(append([]string{}, m.Fields...), o.AbsentFields...)
	for _, f := range fields {
		dict, err := seg.Dictionary(f)
		if err != nil || dict == nil {
			r.Fail("dict-err", "%s: Dictionary(%q): %v", tag, f, err)
			continue
		}
		terms := m.Terms(f)
		if got := dict.Cardinality(); got != len(terms) {
			r.Fail("dict-cardinality", "%s: field %q Cardinality %d, want %d", tag, f, got, len(terms))
		}
		n := 0
		// lookup keys travel in one buffer that is overwritten for the next lookup
		keyBuf := make([]byte, 0, 64)
		var it segment.PostingsIterator
		var rePL segment.PostingsList // recycled list / iterator objects (prealloc), used for every other request
		var reIt segment.PostingsIterator
		for _, t := range terms {
			if o.MaxTerms > 0 && n >= o.MaxTerms {
				break
			}
			n++
			hits := m.Post[f][t]
			var prePL segment.PostingsList
			var preIt segment.PostingsIterator
			if n%2 == 0 {
				prePL, preIt = rePL, reIt
				r.Inc("postings_prealloc_reuse", 1)
			} else if n%4 == 1 {
				// whatever a lookup that misses hands out (possibly shared "empty"
				// sentinels) is passed back as preallocation for this hit
				if mpl, err := dict.PostingsList([]byte("\xfe\xfemiss"), nil, nil); err == nil && mpl != nil {
					prePL, preIt = mpl, mpl.Iterator(true, true, true, nil)
				}
			}
			keyBuf = append(keyBuf[:0], t...)
			pl, err := dict.PostingsList(keyBuf, nil, prePL)
			if err != nil || pl == nil {
				r.Fail("pl-err", "%s: PostingsList(%q,%s): %v", tag, f, short([]byte(t)), err)
				continue
			}
			if pl.Count() != uint64(len(hits)) {
				r.Fail("pl-count", "%s: field %q term %s Count %d, want %d", tag, f, short([]byte(t)), pl.Count(), len(hits))
			}
			it = pl.Iterator(true, true, true, preIt)
			rePL, reIt = pl, it
			where := tag + ": " + f + "/" + short([]byte(t))
			i := 0
			for {
				if i == 1 && (n%3 == 0 || n%4 == 1) {
					// in the middle of this walk: a lookup that misses must be empty and
					// must not disturb the walk (shared "empty" sentinels stay empty)
					if mpl, err := dict.PostingsList([]byte("\xfe\xfemiss"), nil, nil); err != nil || mpl == nil || mpl.Count() != 0 {
						r.Fail("absent-count", "%s: lookup of an absent term during a walk: %v", where, err)
					} else if mp, err := mpl.Iterator(true, true, true, nil).Next(); err != nil || mp != nil {
						r.Fail("absent-hit", "%s: absent term yields a hit during a walk (%v)", where, err)
					}
				}
				p, err := it.Next()
				if err != nil {
					r.Fail("it-err", "%s: Next: %v", where, err)
					break
				}
				if p == nil {
					break
				}
				if i >= len(hits) {
					r.Fail("hit-extra", "%s: extra hit doc %d", where, p.Number())
					break
				}
				if !CompareHit(r, where, p, &hits[i], true, true) {
					break
				}
				i++
			}
			if i < len(hits) && !r.Failed() {
				r.Fail("hit-missing", "%s: %d hits, want %d", where, i, len(hits))
			}
			r.Inc("hits_compared", int64(i))
			r.Inc("terms_compared", 1)
			// the same list again through Advance, with growing strides (a term query
			// is answered by Next and Advance alike)
			if len(hits) >= 2 && !r.Failed() {
				it2 := pl.Iterator(true, true, true, nil)
				stride := 1
				for j := 1; j < len(hits); j += stride {
					p, err := it2.Advance(hits[j].Doc)
					if err != nil || p == nil {
						r.Fail("advance-missing", "%s: Advance(%d): %v, %v", where, hits[j].Doc, p, err)
						break
					}
					if !CompareHit(r, where+" (Advance)", p, &hits[j], true, true) {
						break
					}
					r.Inc("advance_steps", 1)
					stride++
					if j+1 < len(hits) && stride%2 == 0 {
						// and a Next in between
						p, err := it2.Next()
						if err != nil || p == nil || !CompareHit(r, where+" (Next after Advance)", p, &hits[j+1], true, true) {
							if p == nil {
								r.Fail("advance-missing", "%s: Next after Advance(%d): nil, %v", where, hits[j].Doc, err)
							}
							break
						}
						j++
					}
				}
			}
			// two iterators of the same list, the first one paused while the second runs
			if len(hits) >= 2 && n%5 == 0 && !r.Failed() {
				a := pl.Iterator(true, true, true, nil)
				var docsA []uint64
				if p, err := a.Next(); err == nil && p != nil {
					docsA = append(docsA, p.Number())
				}
				b := pl.Iterator(false, false, false, nil)
				nb := 0
				for {
					p, err := b.Next()
					if err != nil || p == nil {
						break
					}
					nb++
				}
				for k := 1; ; k++ {
					p, err := a.Next()
					if err != nil || p == nil {
						break
					}
					docsA = append(docsA, p.Number())
					if k < len(hits) && !CompareHit(r, where+" (paused while a second iterator of the list ran)", p, &hits[k], true, true) {
						break
					}
				}
				if nb != len(hits) || len(docsA) != len(hits) {
					r.Fail("two-iterators", "%s: a paused iterator and a second iterator of the same list yield %d and %d hits, want %d each", where, len(docsA), nb, len(hits))
				}
				r.Inc("lists_with_two_iterators", 1)
			}
			if len(hits) > 1 {
				r.Inc("multi_doc_terms", 1)
			}
			if len(hits) > 1024 {
				r.Inc("terms_card_gt_1024", 1)
			}
			if o.ChunkMode != 0 && len(hits) > 1 {
				cs := ChunkSize(o.ChunkMode, uint64(len(hits)), m.NumDocs)
				if cs > 0 && hits[0].Doc/cs != hits[len(hits)-1].Doc/cs {
					r.Inc("terms_spanning_chunks", 1)
				}
			}
		}
		for ai, t := range o.AbsentTerms {
			if _, ok := m.Post[f][t]; ok {
				continue
			}
			var prePL segment.PostingsList
			if ai%2 == 0 {
				prePL = rePL // a list that served an existing term, recycled for an absent one
			}
			pl, err := dict.PostingsList([]byte(t), nil, prePL)
			if err != nil || pl == nil {
				r.Fail("pl-err", "%s: PostingsList(%q,%s) absent: %v", tag, f, short([]byte(t)), err)
				continue
			}
			if pl.Count() != 0 {
				r.Fail("absent-count", "%s: field %q absent term %s Count %d", tag, f, short([]byte(t)), pl.Count())
			}
			it := pl.Iterator(true, true, true, nil)
			if p, err := it.Next(); err != nil || p != nil {
				r.Fail("absent-hit", "%s: field %q absent term %s yields a hit (%v)", tag, f, short([]byte(t)), err)
			}
			if ok, err := dict.Contains([]byte(t)); err != nil || ok {
				r.Fail("absent-contains", "%s: field %q Contains(absent %s)=%v,%v", tag, f, short([]byte(t)), ok, err)
			}
			r.Inc("absent_terms_checked", 1)
		}
	}
}
