package oracle

import (
	"bytes"
	"sort"

	segment "github.com/blevesearch/scorch_segment_api/v2"

	"verif/harness/model"
)

type cb struct {
	field string
	typ   byte
	val   []byte
	ap    []uint64
}

// CheckStored: slice "stored" of the full-surface oracle (C02, C05).
// earlyStopDocs: number of documents for which every early-stop position is
// enumerated (-1 = all).
func CheckStored(r *Report, tag string, seg segment.Segment, m *model.Seg, earlyStopDocs int) {
	if seg.Count() != m.NumDocs {
		r.Fail("count", "%s: Count %d, want %d", tag, seg.Count(), m.NumDocs)
		return
	}
	got := append([]string{}, seg.Fields()...)
	want := append([]string{}, m.Fields...)
	sort.Strings(got)
	sort.Strings(want)
	same := len(got) == len(want)
	for i := 0; same && i < len(got); i++ {
		same = got[i] == want[i]
	}
	if !same {
		r.Fail("fields", "%s: Fields %q, want %q", tag, seg.Fields(), m.Fields)
	}
	// ids returned by DocID are kept (not copied) across all later calls: a caller
	// may hold on to them
	heldIDs := map[uint64][]byte{}
	defer func() {
		for d := uint64(0); d < m.NumDocs; d++ {
			if id, ok := heldIDs[d]; ok && string(id) != m.IDs[d] {
				r.Fail("docid-unstable", "%s: the slice DocID(%d) returned reads %q after later calls, want %q", tag, d, id, m.IDs[d])
				break
			}
		}
	}()
	for d := uint64(0); d < m.NumDocs; d++ {
		var cbs []cb
		err := seg.VisitStoredFields(d, func(field string, typ byte, value []byte, pos []uint64) bool {
			cbs = append(cbs, cb{field, typ, append([]byte(nil), value...), append([]uint64(nil), pos...)})
			return true
		})
		if err != nil {
			r.Fail("stored-err", "%s: VisitStoredFields(%d): %v", tag, d, err)
			continue
		}
		exp := m.Stored[d]
		if len(cbs) == 0 || cbs[0].field != "_id" || cbs[0].typ != 't' || string(cbs[0].val) != m.IDs[d] || len(cbs[0].ap) != 0 {
			r.Fail("stored-id-first", "%s: doc %d first callback %+v, want _id=%q", tag, d, cbs, m.IDs[d])
			continue
		}
		rest := cbs[1:]
		if len(rest) != len(exp) {
			r.Fail("stored-count", "%s: doc %d: %d stored values, want %d", tag, d, len(rest), len(exp))
			continue
		}
		// per field, input order
		gotBy := map[string][]cb{}
		for _, c := range rest {
			gotBy[c.field] = append(gotBy[c.field], c)
		}
		expBy := map[string][]model.StoredVal{}
		for _, e := range exp {
			expBy[e.Field] = append(expBy[e.Field], e)
		}
		for f, es := range expBy {
			gs := gotBy[f]
			if len(gs) != len(es) {
				r.Fail("stored-field-count", "%s: doc %d field %q: %d values, want %d", tag, d, f, len(gs), len(es))
				continue
			}
			for i := range es {
				if gs[i].typ != es[i].Type || !bytes.Equal(gs[i].val, es[i].Value) || !eqU64s(gs[i].ap, es[i].AP) {
					r.Fail("stored-value", "%s: doc %d field %q #%d: got (%c,%s,%v) want (%c,%s,%v)", tag, d, f, i,
						gs[i].typ, short(gs[i].val), gs[i].ap, es[i].Type, short(es[i].Value), es[i].AP)
				}
			}
		}
		r.Inc("stored_callbacks_compared", int64(len(cbs)))
		if len(exp) > 0 {
			r.Inc("docs_with_stored", 1)
		}

		if earlyStopDocs < 0 || int(d) < earlyStopDocs {
			total := len(cbs)
			for k := 1; k <= total; k++ {
				n := 0
				err := seg.VisitStoredFields(d, func(field string, typ byte, value []byte, pos []uint64) bool {
					n++
					return n < k
				})
				if err != nil || n != k {
					r.Fail("stored-earlystop", "%s: doc %d stop after %d: got %d callbacks, err %v", tag, d, k, n, err)
				}
				r.Inc("early_stop_positions", 1)
			}
		}

		id, err := seg.DocID(d)
		if err != nil || string(id) != m.IDs[d] {
			r.Fail("docid", "%s: DocID(%d)=%q,%v want %q", tag, d, id, err, m.IDs[d])
		}
		if err == nil && string(id) == m.IDs[d] {
			heldIDs[d] = id
		}
	}
	for _, d := range []uint64{m.NumDocs, m.NumDocs + 1, m.NumDocs + 1000, 1 << 31} {
		n := 0
		err := seg.VisitStoredFields(d, func(string, byte, []byte, []uint64) bool { n++; return true })
		if err != nil || n != 0 {
			r.Fail("stored-beyond", "%s: VisitStoredFields(%d) beyond Count: %d callbacks, err %v", tag, d, n, err)
		}
		id, err := seg.DocID(d)
		if err != nil || id != nil {
			r.Fail("docid-beyond", "%s: DocID(%d) beyond Count: %q, %v", tag, d, id, err)
		}
		r.Inc("beyond_count_checked", 1)
	}
}

// CheckIDs: slice "ids" (DocNumbers) of the full-surface oracle.
func CheckIDs(r *Report, tag string, seg segment.Segment, m *model.Seg, extra []string) {
	byID := map[string][]uint32{}
	var maxID string
	for d, id := range m.IDs {
		byID[id] = append(byID[id], uint32(d))
		if id > maxID {
			maxID = id
		}
	}
	check := func(class string, ids []string) {
		bm, err := seg.DocNumbers(ids)
		if err != nil || bm == nil {
			r.Fail("docnumbers-err", "%s: DocNumbers(%q): %v", tag, ids, err)
			return
		}
		want := map[uint32]bool{}
		for _, id := range ids {
			for _, d := range byID[id] {
				want[d] = true
			}
		}
		got := bm.ToArray()
		bad := len(got) != len(want)
		for _, d := range got {
			if !want[d] {
				bad = true
			}
		}
		if bad {
			r.Fail("docnumbers", "%s: DocNumbers(%q) = %v, want %v", tag, ids, got, want)
		}
		r.Inc("idlookup_"+class, 1)
	}
	var all []string
	for id := range byID {
		all = append(all, id)
	}
	sort.Strings(all)
	lim := all
	if len(lim) > 40 {
		lim = append(append([]string{}, all[:20]...), all[len(all)-20:]...)
	}
	for _, id := range lim {
		check("present", []string{id})
		check("absent_neighbour", []string{id + "\x00"})
		if len(id) > 0 {
			check("absent_prefix", []string{id[:len(id)-1]})
		}
	}
	check("all", all)
	check("empty_list", nil)
	check("empty_id", []string{""})
	check("equal_max", []string{maxID})
	check("above_max", []string{maxID + "a", "\xfe\xfe\xfe", maxID + "\x00"})
	mixed := []string{"\xfe\xfe", maxID + "z"}
	for i, id := range all {
		if i%2 == 0 {
			mixed = append(mixed, id, id+"!")
		}
	}
	check("mixed", mixed)
	if len(all) > 0 {
		check("duplicates_in_list", []string{all[0], all[0], all[len(all)-1]})
	}
	for _, id := range extra {
		check("extra", []string{id})
	}
}
