package oracle

import (
	"math/rand"
	"sort"

	segment "github.com/blevesearch/scorch_segment_api/v2"
	"github.com/blevesearch/vellum"
	"github.com/blevesearch/vellum/levenshtein"
	"github.com/blevesearch/vellum/regexp"

	"verif/harness/model"
)

// own small automata -------------------------------------------------------

type exactAut struct{ s []byte }

func (a exactAut) Start() int               { return 0 }
func (a exactAut) IsMatch(st int) bool      { return st == len(a.s) }
func (a exactAut) CanMatch(st int) bool     { return st >= 0 }
func (a exactAut) WillAlwaysMatch(int) bool { return false }
func (a exactAut) Accept(st int, b byte) int {
	if st < 0 || st >= len(a.s) || a.s[st] != b {
		return -1
	}
	return st + 1
}

type prefixAut struct{ s []byte }

func (a prefixAut) Start() int                  { return 0 }
func (a prefixAut) IsMatch(st int) bool         { return st == len(a.s) }
func (a prefixAut) CanMatch(st int) bool        { return st >= 0 }
func (a prefixAut) WillAlwaysMatch(st int) bool { return st == len(a.s) }
func (a prefixAut) Accept(st int, b byte) int {
	if st < 0 {
		return -1
	}
	if st == len(a.s) {
		return st
	}
	if a.s[st] != b {
		return -1
	}
	return st + 1
}

type neverAut struct{}

func (neverAut) Start() int               { return 0 }
func (neverAut) IsMatch(int) bool         { return false }
func (neverAut) CanMatch(int) bool        { return false }
func (neverAut) WillAlwaysMatch(int) bool { return false }
func (neverAut) Accept(int, byte) int     { return 0 }

// accepts decides acceptance by stepping the automaton over the bytes,
// independently of any FST walk.
func accepts(a segment.Automaton, term string) bool {
	if a == nil {
		return true
	}
	st := a.Start()
	for i := 0; i < len(term); i++ {
		st = a.Accept(st, term[i])
	}
	return a.IsMatch(st)
}

type namedAut struct {
	name string
	a    segment.Automaton
}

var lev1, lev2 *levenshtein.LevenshteinAutomatonBuilder

func init() {
	lev1, _ = levenshtein.NewLevenshteinAutomatonBuilder(1, false)
	lev2, _ = levenshtein.NewLevenshteinAutomatonBuilder(2, true)
}

func automataFor(terms []string, rng *rand.Rand) []namedAut {
	auts := []namedAut{{"all", nil}, {"never", neverAut{}}}
	seedTerms := []string{"a", "zz", "q"}
	if len(terms) > 0 {
		seedTerms = append(seedTerms, terms[rng.Intn(len(terms))], terms[0], terms[len(terms)-1])
	}
	for _, t := range seedTerms {
		auts = append(auts, namedAut{"exact:" + t, exactAut{[]byte(t)}})
		p := t
		if len(p) > 1 {
			p = p[:1+rng.Intn(len(p)-1)]
		}
		auts = append(auts, namedAut{"prefix:" + p, prefixAut{[]byte(p)}})
		if len(t) < 40 {
			if d, err := lev1.BuildDfa(t, 1); err == nil {
				auts = append(auts, namedAut{"lev1:" + t, d})
			}
			if d, err := lev2.BuildDfa(t, 2); err == nil {
				auts = append(auts, namedAut{"lev2:" + t, d})
			}
		}
	}
	for _, re := range []string{"a.*", ".*b", "[a-k]+", "(a|b|ab)c?", ".?", "q[0-9]"} {
		if r, err := regexp.New(re); err == nil {
			auts = append(auts, namedAut{"re:" + re, r})
		}
	}
	return auts
}

func boundsFor(terms []string, rng *rand.Rand) [][]byte {
	bs := [][]byte{nil, []byte("\x00"), []byte("a"), []byte("m"), []byte("\xff\xff")}
	if len(terms) > 0 {
		t := terms[rng.Intn(len(terms))]
		bs = append(bs, []byte(t), []byte(t+"\x00"), []byte(terms[0]), []byte(terms[len(terms)-1]), []byte(terms[len(terms)-1]+"a"))
		if len(t) > 0 {
			bs = append(bs, []byte(t[:len(t)-1]))
		}
	}
	// empty non-nil bounds are outside the domain (bleve passes nil for "absent";
	// vellum treats an empty end key inconsistently for the empty term)
	out := bs[:0]
	for _, b := range bs {
		if b == nil || len(b) > 0 {
			out = append(out, b)
		}
	}
	return out
}

// checkEmptyEndBound: an end bound that is present but empty lies below every
// term: nothing is in [start, ""). Only for dictionaries without the empty
// term (vellum treats that one inconsistently under an empty end bound).
func checkEmptyEndBound(r *Report, tag, f string, dict segment.TermDictionary, terms []string) {
	if len(terms) == 0 || terms[0] == "" {
		return
	}
	for _, start := range [][]byte{nil, []byte(terms[0])} {
		it := dict.AutomatonIterator(nil, start, []byte{})
		if e, err := it.Next(); err != nil || e != nil {
			t := "<nil>"
			if e != nil {
				t = short([]byte(e.Term))
			}
			r.Fail("dict-iter-term", "%s: field %q range [%q, \"\") with an empty, non-nil end bound yields %s, %v; want nothing", tag, f, start, t, err)
		}
		r.Inc("dict_empty_end_bounds", 1)
	}
}

// CheckDictionary: slice "dictionary" of the full-surface oracle (C08).
// light: fewer automaton/range combinations.
func CheckDictionary(r *Report, tag string, seg segment.Segment, m *model.Seg, rng *rand.Rand, light bool) {
	fields := append(append([]string{}, m.Fields...), "zz_absent")
	for _, f := range fields {
		dict, err := seg.Dictionary(f)
		if err != nil || dict == nil {
			r.Fail("dict-err", "%s: Dictionary(%q): %v", tag, f, err)
			continue
		}
		terms := m.Terms(f)
		if dict.Cardinality() != len(terms) {
			r.Fail("dict-cardinality", "%s: field %q Cardinality %d, want %d", tag, f, dict.Cardinality(), len(terms))
		}
		for _, t := range terms {
			if ok, err := dict.Contains([]byte(t)); err != nil || !ok {
				r.Fail("dict-contains", "%s: field %q Contains(%s)=%v,%v", tag, f, short([]byte(t)), ok, err)
			}
		}
		checkEmptyEndBound(r, tag, f, dict, terms)
		auts := automataFor(terms, rng)
		bounds := boundsFor(terms, rng)
		if light {
			auts = auts[:3]
			if len(bounds) > 7 {
				bounds = bounds[:7]
			}
		}
		for _, na := range auts {
			for si, start := range bounds {
				for ei, end := range bounds {
					if start != nil && end != nil && string(start) >= string(end) {
						continue // only well-formed ranges: start < end
					}
					if light && (si+ei)%2 == 1 {
						continue
					}
					var want []string
					for _, t := range terms {
						if start != nil && t < string(start) {
							continue
						}
						if end != nil && t >= string(end) {
							continue
						}
						if accepts(na.a, t) {
							want = append(want, t)
						}
					}
					it := dict.AutomatonIterator(na.a, start, end)
					i := 0
					sawOneHit := false
					// a second enumeration of the same dictionary (all terms) runs
					// interleaved with this one: each must see its own terms
					var other segment.DictionaryIterator
					oi := 0
					otherStep := func() {
						if other == nil {
							return
						}
						e, err := other.Next()
						switch {
						case err != nil:
							r.Fail("dict-iter-err", "%s: field %q full enumeration interleaved with aut %s [%q,%q): %v", tag, f, na.name, start, end, err)
							other = nil
						case e == nil:
							if oi != len(terms) {
								r.Fail("dict-iter-short", "%s: field %q full enumeration interleaved with aut %s [%q,%q): %d entries, want %d", tag, f, na.name, start, end, oi, len(terms))
							}
							other = nil
						case oi >= len(terms) || e.Term != terms[oi]:
							r.Fail("dict-iter-term", "%s: field %q full enumeration interleaved with aut %s [%q,%q): entry %d is %s", tag, f, na.name, start, end, oi, short([]byte(e.Term)))
							other = nil
						default:
							oi++
						}
					}
					interleave := (si+2*ei)%3 == 0
					for {
						if interleave && i == 1 && other == nil && oi == 0 {
							other = dict.AutomatonIterator(nil, nil, nil)
							r.Inc("dict_interleaved_enumerations", 1)
						}
						otherStep()
						e, err := it.Next()
						if err != nil {
							r.Fail("dict-iter-err", "%s: field %q aut %s [%q,%q): %v", tag, f, na.name, start, end, err)
							break
						}
						if e == nil {
							// a finished enumeration stays finished
							for k := 0; k < 3; k++ {
								if e2, err := it.Next(); err != nil || e2 != nil {
									t2 := "<nil>"
									if e2 != nil {
										t2 = short([]byte(e2.Term))
									}
									r.Fail("dict-iter-after-end", "%s: field %q aut %s [%q,%q): call %d after the end returned %s, %v", tag, f, na.name, start, end, k+1, t2, err)
									break
								}
							}
							break
						}
						if i >= len(want) || e.Term != want[i] {
							w := "<end>"
							if i < len(want) {
								w = want[i]
							}
							r.Fail("dict-iter-term", "%s: field %q aut %s [%q,%q): entry %d is %s, want %s", tag, f, na.name, start, end, i, short([]byte(e.Term)), short([]byte(w)))
							i = len(want)
							break
						}
						card := uint64(len(m.Post[f][e.Term]))
						if e.Count != card {
							r.Fail("dict-iter-count", "%s: field %q aut %s [%q,%q): term %s Count %d, postings %d (previous entry single-doc: %v)", tag, f, na.name, start, end, short([]byte(e.Term)), e.Count, card, sawOneHit)
						}
						if sawOneHit && card > 1 {
							r.Inc("dict_general_after_single", 1)
						}
						sawOneHit = card == 1
						i++
						r.Inc("dict_entries_checked", 1)
					}
					if i < len(want) {
						r.Fail("dict-iter-short", "%s: field %q aut %s [%q,%q): %d entries, want %d", tag, f, na.name, start, end, i, len(want))
					}
					for other != nil {
						otherStep()
					}
					r.Inc("dict_iterations", 1)
				}
			}
		}
	}
	_ = sort.Strings
	_ = vellum.ErrIteratorDone
}
