// Package oracle is the full-surface comparator: it drives the read APIs of a
// segment and compares every answer with the reference model.
package oracle

import (
	"fmt"
	"sync"
)

// Violation is one disagreement between the code under test and the model.
type Violation struct {
	Class  string `json:"class"`  // short stable class, used by known-finding signatures
	Detail string `json:"detail"` // human readable
}

// Report collects violations and "what was observed" counters. Safe for
// concurrent use.
type Report struct {
	mu   sync.Mutex
	Viol []Violation
	C    map[string]int64
	more int
}

func NewReport() *Report { return &Report{C: map[string]int64{}} }

const maxViol = 12

func (r *Report) Fail(class, format string, args ...interface{}) {
	r.mu.Lock()
	defer r.mu.Unlock()
	if len(r.Viol) >= maxViol {
		r.more++
		return
	}
	r.Viol = append(r.Viol, Violation{Class: class, Detail: fmt.Sprintf(format, args...)})
}

func (r *Report) Inc(name string, n int64) {
	r.mu.Lock()
	r.C[name] += n
	r.mu.Unlock()
}

func (r *Report) Max(name string, n int64) {
	r.mu.Lock()
	if n > r.C[name] {
		r.C[name] = n
	}
	r.mu.Unlock()
}

func (r *Report) Failed() bool {
	r.mu.Lock()
	defer r.mu.Unlock()
	return len(r.Viol) > 0
}

// Take returns and clears the violations collected so far.
func (r *Report) Take() []Violation {
	r.mu.Lock()
	defer r.mu.Unlock()
	v := r.Viol
	r.Viol = nil
	r.more = 0
	return v
}

// Counters returns a copy of the counters.
func (r *Report) Counters() map[string]int64 {
	r.mu.Lock()
	defer r.mu.Unlock()
	c := make(map[string]int64, len(r.C))
	for k, v := range r.C {
		c[k] = v
	}
	return c
}

func short(b []byte) string {
	if len(b) > 40 {
		return fmt.Sprintf("%q…(%d bytes)", b[:40], len(b))
	}
	return fmt.Sprintf("%q", b)
}
