package main

import (
	"bytes"
	"compress/gzip"
	"crypto/sha256"
	"encoding/gob"
	"fmt"
	"io"
	"math/rand"
	"os"
	"path/filepath"
	"sort"
	"strings"

	segment "github.com/blevesearch/scorch_segment_api/v2"

	"verif/harness/model"
	"verif/harness/oracle"
	"verif/harness/zapdec"
	"verif/harness/zx"
)

func init() {
	workloads["C09"] = c09
	workloads["C09gen"] = c09gen
}

// decodeAndCompare: the file is decoded by the independent v16 reader and
// the result compared with the model of what went in.
func decodeAndCompare(c *Ctx, tag, path string, m *model.Seg, mode uint32) {
	data := readFile(path)
	d, err := zapdec.Decode(data)
	c.R.Inc("programs", 1) // files validated
	c.R.Inc("dec_bytes", int64(len(data)))
	if err != nil {
		c.R.Inc("disagreements_checked", 1)
		c.R.Fail("dec-error", "%s: the independent v16 decoder cannot read the file (%d bytes): %v", tag, len(data), err)
		return
	}
	before := c.R.Failed()
	oracle.CompareDecoded(c.R, tag, d, m, mode)
	if !before && c.R.Failed() {
		c.R.Inc("disagreements_checked", 1)
	}
}

// corpusEntry describes one frozen file: how its content was produced.
type corpusEntry struct {
	Name    string         `json:"name"`
	SHA256  string         `json:"sha256"`
	Mode    uint32         `json:"mode"`
	Flavour string         `json:"flavour"` // plain | vec (vec files need the vectors build + engine double)
	Batches []*model.Batch `json:"batches"`
	Steps   []corpusStep   `json:"steps,omitempty"` // merges; inputs index into batches then earlier outputs
	Note    string         `json:"note,omitempty"`
}

type corpusStep struct {
	Inputs []int      `json:"inputs"`
	Drops  [][]uint32 `json:"drops"`
}

func (e *corpusEntry) model() *model.Seg {
	var pool []*model.Seg
	for _, b := range e.Batches {
		pool = append(pool, model.Build(b))
	}
	for _, st := range e.Steps {
		var ms []*model.Seg
		var ds []map[uint32]bool
		for k, in := range st.Inputs {
			ms = append(ms, pool[in])
			d := map[uint32]bool{}
			for _, x := range st.Drops[k] {
				d[x] = true
			}
			ds = append(ds, d)
		}
		mm, _ := model.Merge(ms, ds)
		pool = append(pool, mm)
	}
	return pool[len(pool)-1]
}

func readGz(p string) ([]byte, error) {
	f, err := os.Open(p)
	if err != nil {
		return nil, err
	}
	defer f.Close()
	zr, err := gzip.NewReader(f)
	if err != nil {
		return nil, err
	}
	return io.ReadAll(zr)
}

func corpusDir() string {
	if d := os.Getenv("VERIF_CORPUS_DIR"); d != "" {
		return d
	}
	return "/verif/corpus"
}

// C09: (1) every file written by the workload is decoded independently and
// compared with the model; (2) every frozen file written by the pinned
// release is opened by the current code (full surface) and decoded.
func c09(c *Ctx) {
	// ---- part 2: frozen corpus (shard by file)
	entries, _ := filepath.Glob(filepath.Join(corpusDir(), "*.spec.gz"))
	sort.Strings(entries)
	for i, ep := range entries {
		if !c.Mine(i) {
			continue
		}
		var e corpusEntry
		b, err := readGz(ep)
		if err == nil {
			// gob, not JSON: terms and values are arbitrary bytes
			err = gob.NewDecoder(bytes.NewReader(b)).Decode(&e)
		}
		if err != nil {
			c.R.Fail("corpus-harness", "cannot read corpus entry %s: %v", ep, err)
			continue
		}
		if (e.Flavour == "vec") != VecBuild {
			continue
		}
		id := "corpus-" + e.Name
		if !c.Case(id, map[string]interface{}{"file": e.Name, "mode": e.Mode, "batches": len(e.Batches), "merges": len(e.Steps), "note": e.Note}) {
			continue
		}
		zp := strings.TrimSuffix(ep, ".spec.gz") + ".zap"
		data := readFile(zp)
		if fmt.Sprintf("%x", sha256.Sum256(data)) != e.SHA256 {
			c.R.Fail("corpus-harness", "%s: sha256 of the frozen file differs from the manifest (corpus damaged)", e.Name)
			c.End()
			continue
		}
		m := e.model()
		rng := c.Rng(10000 + i)
		zx.SetChunkMode(e.Mode)
		guard(c.R, id, func() {
			o, err := zx.Open(zp)
			if err != nil {
				c.R.Fail("corpus-open", "%s: the current code cannot open a file written by the pinned release: %v", e.Name, err)
				return
			}
			defer o.Close()
			before := c.R.Failed()
			fullSurface(c, id, o, m, e.Mode, rng, m.NumDocs > 500)
			if !before && c.R.Failed() {
				c.R.Inc("disagreements_checked", 1)
			}
		})
		decodeAndCompare(c, id+" (decoder self-check)", zp, m, e.Mode)
		c.R.Inc("corpus_files_reread", 1)
		c.DistinctN(1)
		c.Sample(map[string]interface{}{"corpus_file": e.Name, "mode": e.Mode, "docs": m.NumDocs, "note": e.Note})
		c.End()
	}
	// ---- part 1b: the merge plans of C05 (all plan classes), every output decoded
	mergeWorkload(c, sliceDec)
	// ---- part 1: files written now
	n := c.N(600, 24000)
	tallEvery := c.N(12, 12)
	for i := 0; i < n; i++ {
		if !c.Mine(i) {
			continue
		}
		rng := c.Rng(i)
		class := classFor(i, rng, tallEvery)
		mode := modeFor(i, rng)
		if class == "huge" {
			mode = hugeMode(i)
		}
		if class == "tall" {
			mode = []uint32{1025, 1026, 1024, 1025}[(i/tallEvery)%4]
		}
		if class == "multi" {
			// field instances and documents holding the term lie on different sides of
			// 1024 / 2048: only the cardinality-dependent modes tell them apart
			mode = []uint32{1026, 1026, 1025}[(i/61)%3]
		}
		a := model.Gen(rng, class, model.GenOpts{Syn: rng.Intn(3) == 0, Vec: VecBuild && rng.Intn(2) == 0, IDPrefix: "a", VecSalt: 1 + i%997})
		extra := ""
		if class == "tall" {
			// all (mode, cardinality) combinations come round: different strides
			k := model.EdgeCards[(i/tallEvery+i/tallEvery/4)%len(model.EdgeCards)]
			model.ForceCardinality(a, rng, firstFieldName(a), "edge", k)
			extra = fmt.Sprintf("term edge in %d docs", k)
		}
		b := model.Gen(rng, []string{"small", "mid", "one", "empty"}[rng.Intn(4)], model.GenOpts{Syn: rng.Intn(3) == 0, Vec: VecBuild && rng.Intn(2) == 0, IDPrefix: "b", NoBig: true, VecSalt: 1 + i%997})
		ma, mb := model.Build(a), model.Build(b)
		d1 := []map[uint32]bool{randDrops(rng, ma.NumDocs, 3), randDrops(rng, mb.NumDocs, 3)}
		m1, _ := model.Merge([]*model.Seg{ma, mb}, d1)
		d2 := []map[uint32]bool{randDrops(rng, m1.NumDocs, 3)}
		m2, _ := model.Merge([]*model.Seg{m1}, d2)
		mode2 := modeFor(i+1, rng)
		if class == "huge" {
			mode2 = hugeMode(i + 1)
		}
		id := fmt.Sprintf("f%d", i)
		if !c.Case(id, caseDesc{Class: class, Mode: mode, Docs: len(a.Docs), FP: fpString(a.Fingerprint() ^ b.Fingerprint()<<1), Extra: extra}) {
			continue
		}
		guard(c.R, id, func() {
			zx.SetChunkMode(mode)
			sa, _, err := zx.Build(a)
			if err != nil {
				c.R.Fail("build-err", "%s: %v", id, err)
				return
			}
			defer sa.Close()
			sb, _, err := zx.Build(b)
			if err != nil {
				c.R.Fail("build-err", "%s: %v", id, err)
				return
			}
			defer sb.Close()
			pa := c.Scratch.Path("c09a")
			defer os.Remove(pa)
			if err := zx.Persist(sa, pa); err != nil {
				c.R.Fail("persist-err", "%s: %v", id, err)
				return
			}
			decodeAndCompare(c, id+"/persisted", pa, ma, mode)
			c.R.Inc("files_from_persist", 1)
			p1 := c.Scratch.Path("c09m1")
			defer os.Remove(p1)
			zx.SetChunkMode(mode2)
			if _, _, err := zx.Merge(segs(sa, sb), zx.Drops(d1, nil), p1, nil, nil); err != nil {
				c.R.Fail("merge-err", "%s: %v", id, err)
				return
			}
			decodeAndCompare(c, id+"/merged", p1, m1, mode2)
			c.R.Inc("files_from_merge", 1)
			o1, err := zx.Open(p1)
			if err != nil {
				c.R.Fail("open-err", "%s: %v", id, err)
				return
			}
			defer o1.Close()
			p2 := c.Scratch.Path("c09m2")
			defer os.Remove(p2)
			zx.SetChunkMode(mode)
			if _, _, err := zx.Merge(segs(o1), zx.Drops(d2, nil), p2, nil, nil); err != nil {
				c.R.Fail("merge-err", "%s: second merge: %v", id, err)
				return
			}
			decodeAndCompare(c, id+"/merged-twice", p2, m2, mode)
			c.R.Inc("files_from_merge_of_merge", 1)
		})
		if nontrivialBatch(ma) {
			c.Distinct(a.Fingerprint() ^ uint64(mode)<<48)
		}
		c.Sample(map[string]interface{}{"case": id, "class": class, "mode": mode, "merge_mode": mode2, "docs": len(a.Docs)})
		c.End()
	}
}

// c09gen writes the frozen corpus. It is run ONCE, with the worker built
// against a worktree of the pinned commit (VERIF_REPO_DIR), never by a check.
func c09gen(c *Ctx) {
	out := os.Getenv("VERIF_CORPUS_OUT")
	if out == "" {
		c.R.Fail("harness", "VERIF_CORPUS_OUT not set")
		return
	}
	os.MkdirAll(out, 0755)
	rng := rand.New(rand.NewSource(562467))
	fl := "plain"
	if VecBuild {
		fl = "vec"
	}
	type spec struct {
		name  string
		class string
		mode  uint32
		syn   bool
		edge  int
		merge int // 0 none, 1 merge with second batch, 2 merged-of-merged
		note  string
	}
	var specs []spec
	if !VecBuild {
		specs = []spec{
			{"empty-1026", "empty", 1026, false, 0, 0, "empty batch"},
			{"one-1026", "one", 1026, false, 0, 0, ""},
			{"small-1", "small", 1, false, 0, 0, "chunk size 1"},
			{"small-2", "small", 2, false, 0, 0, ""},
			{"small-3-syn", "small", 3, true, 0, 0, "thesauri"},
			{"small-1026-syn", "small", 1026, true, 0, 0, "thesauri"},
			{"mid-5", "mid", 5, false, 0, 0, ""},
			{"mid-7-syn", "mid", 7, true, 0, 0, ""},
			{"mid-64", "mid", 64, false, 0, 0, ""},
			{"mid-1024", "mid", 1024, false, 0, 0, "legacy mode"},
			{"mid-1025", "mid", 1025, false, 0, 0, ""},
			{"mid-1026", "mid", 1026, false, 0, 0, "default mode"},
			{"wide-16", "wide", 16, false, 0, 0, "many fields"},
			{"wide-1026-syn", "wide", 1026, true, 0, 0, ""},
			{"deep-4", "deep", 4, false, 0, 0, "multi-valued fields"},
			{"deep-1026", "deep", 1026, false, 0, 0, ""},
			{"stored-8", "stored", 8, false, 0, 0, "70 kB values"},
			{"stored-1026", "stored", 1026, false, 0, 0, ""},
			{"tall-1025-card1024", "tall", 1025, false, 1024, 0, "cardinality exactly 1024 in mode 1025"},
			{"tall-1025-card1025", "tall", 1025, false, 1025, 0, "cardinality 1025 in mode 1025"},
			{"tall-1026-card1023", "tall", 1026, false, 1023, 0, ""},
			{"tall-1026-card1024", "tall", 1026, false, 1024, 0, "cardinality exactly 1024 in mode 1026"},
			{"tall-1026-card2048", "tall", 1026, false, 2048, 0, "three chunks"},
			{"tall-1024-card1500", "tall", 1024, false, 1500, 0, ""},
			{"merged-small-1026", "small", 1026, false, 0, 1, "merge of two with deletions"},
			{"merged-small-2-syn", "small", 2, true, 0, 1, "merged thesauri"},
			{"merged-mid-1025", "mid", 1025, false, 0, 1, ""},
			{"merged-mid-3", "mid", 3, false, 0, 1, ""},
			{"merged-deep-1026-syn", "deep", 1026, true, 0, 1, ""},
			{"merged2-small-1026", "small", 1026, false, 0, 2, "merged of merged: single-hit entries merged again"},
			{"merged2-mid-5-syn", "mid", 5, true, 0, 2, ""},
			{"merged2-mid-1026", "mid", 1026, false, 0, 2, ""},
			{"merged-tall-1026", "tall", 1026, false, 1030, 1, "cardinality > 1024 after a merge"},
			{"merged-tall-1025", "tall", 1025, false, 1024, 1, ""},
		}
	} else {
		specs = []spec{
			{"vec-small-1026", "small", 1026, false, 0, 0, "vector envelope (engine double blob)"},
			{"vec-mid-4", "mid", 4, true, 0, 0, ""},
			{"vec-merged-small-1026", "small", 1026, false, 0, 1, ""},
			{"vec-merged2-mid-1026", "mid", 1026, false, 0, 2, ""},
		}
	}
	for i, s := range specs {
		if !c.Case("gen-"+s.name, s.name) {
			continue
		}
		e := corpusEntry{Name: s.name, Mode: s.mode, Flavour: fl, Note: s.note}
		genOne := func(class, prefix string) *model.Batch {
			for {
				b := model.Gen(rng, class, model.GenOpts{Syn: s.syn, Vec: VecBuild, IDPrefix: prefix, VecSalt: 7 + i, NoBig: class != "stored"})
				if s.merge > 0 && s.syn {
					// the pinned release mishandles an empty left-hand term in thesaurus
					// merges (finding F4): keep it out of the frozen merged files
					bad := false
					for _, d := range b.Docs {
						for _, sf := range d.Syn {
							for _, p := range sf.Pairs {
								if p.Term == "" {
									bad = true
								}
							}
						}
					}
					if bad {
						continue
					}
				}
				return b
			}
		}
		a := genOne(s.class, "a")
		if s.edge > 0 {
			model.ForceCardinality(a, rng, firstFieldName(a), "edge", s.edge)
		}
		e.Batches = append(e.Batches, a)
		zx.SetChunkMode(s.mode)
		final := filepath.Join(out, s.name+".zap")
		os.Remove(final)
		guard(c.R, s.name, func() {
			sa, _, err := zx.Build(a)
			if err != nil {
				c.R.Fail("harness", "%s: %v", s.name, err)
				return
			}
			defer sa.Close()
			if s.merge == 0 {
				if err := zx.Persist(sa, final); err != nil {
					c.R.Fail("harness", "%s: %v", s.name, err)
				}
				return
			}
			b := genOne([]string{"small", "mid"}[rng.Intn(2)], "b")
			e.Batches = append(e.Batches, b)
			sb, _, err := zx.Build(b)
			if err != nil {
				c.R.Fail("harness", "%s: %v", s.name, err)
				return
			}
			defer sb.Close()
			ma, mb := model.Build(a), model.Build(b)
			mkDrops := func(m *model.Seg) []uint32 {
				var d []uint32
				for x := uint64(0); x < m.NumDocs; x++ {
					if rng.Intn(4) == 0 && uint64(len(d))+1 < m.NumDocs {
						d = append(d, uint32(x))
					}
				}
				return d
			}
			st := corpusStep{Inputs: []int{0, 1}, Drops: [][]uint32{mkDrops(ma), mkDrops(mb)}}
			e.Steps = append(e.Steps, st)
			toSets := func(ds [][]uint32) []map[uint32]bool {
				var out []map[uint32]bool
				for _, d := range ds {
					m := map[uint32]bool{}
					for _, x := range d {
						m[x] = true
					}
					out = append(out, m)
				}
				return out
			}
			target := final
			if s.merge == 2 {
				target = c.Scratch.Path("gen-m1")
				defer os.Remove(target)
			}
			if _, _, err := zx.Merge(segs(sa, sb), zx.Drops(toSets(st.Drops), nil), target, nil, nil); err != nil {
				c.R.Fail("harness", "%s: merge: %v", s.name, err)
				return
			}
			if s.merge == 2 {
				o1, err := zx.Open(target)
				if err != nil {
					c.R.Fail("harness", "%s: %v", s.name, err)
					return
				}
				defer o1.Close()
				m1, _ := model.Merge([]*model.Seg{ma, mb}, toSets(st.Drops))
				var ins []segment.Segment
				st2 := corpusStep{Inputs: []int{2}, Drops: [][]uint32{mkDrops(m1)}}
				ins = append(ins, o1)
				if !VecBuild {
					// merged again together with a leaf (duplicates of ids are legal for text)
					st2.Inputs = append(st2.Inputs, 1)
					st2.Drops = append(st2.Drops, nil)
					ins = append(ins, sb)
				}
				e.Steps = append(e.Steps, st2)
				if _, _, err := zx.Merge(ins, zx.Drops(toSets(st2.Drops), nil), final, nil, nil); err != nil {
					c.R.Fail("harness", "%s: second merge: %v", s.name, err)
				}
			}
		})
		data := readFile(final)
		if len(data) == 0 {
			c.R.Fail("harness", "%s: no file written", s.name)
			c.End()
			continue
		}
		e.SHA256 = fmt.Sprintf("%x", sha256.Sum256(data))
		var buf bytes.Buffer
		zw, _ := gzip.NewWriterLevel(&buf, 9)
		if err := gob.NewEncoder(zw).Encode(&e); err != nil {
			c.R.Fail("harness", "%s: %v", s.name, err)
		}
		zw.Close()
		os.WriteFile(filepath.Join(out, s.name+".spec.gz"), buf.Bytes(), 0644)
		c.R.Inc("corpus_files_written", 1)
		c.R.Inc("corpus_bytes", int64(len(data)))
		c.End()
	}
}
