//go:build vectors

package main

import (
	"fmt"
	"math/rand"
	"os"
	"runtime"
	"sort"
	"sync"
	"time"

	"github.com/RoaringBitmap/roaring/v2"
	faiss "github.com/blevesearch/go-faiss"
	segment "github.com/blevesearch/scorch_segment_api/v2"
	zap "github.com/blevesearch/zapx/v16"

	"verif/harness/model"
	"verif/harness/oracle"
	"verif/harness/zx"
)

func init() {
	workloads["C14"] = c14
	workloads["C15"] = func(c *Ctx) { mergeWorkload(c, sliceVec) }
	workloads["C16"] = c16hist
	workloads["C16c"] = c16stress
	workloads["C19"] = c19
	vecAfterPlan = engineQuiescent
}

// drainEngine waits (bounded) for the asynchronous index closers.
func drainEngine() bool {
	for i := 0; i < 4000; i++ {
		if len(faiss.MonitorLive("index")) == 0 {
			return true
		}
		if i < 200 {
			runtime.Gosched()
		} else {
			time.Sleep(time.Millisecond)
		}
	}
	return len(faiss.MonitorLive("index")) == 0
}

// engineQuiescent: after every segment of a case was closed, no native index
// may be alive and the engine monitor must not have seen misuse.
func engineQuiescent(c *Ctx, tag string) {
	if !drainEngine() {
		live := faiss.MonitorLive("index")
		c.R.Fail("engine-leak", "%s: %d native index(es) still alive after all segments were closed: %v", tag, len(live), firstN(live, 4))
		faiss.MonitorForgetAll()
	}
	if live := faiss.MonitorLive("selector"); len(live) > 0 {
		c.R.Fail("engine-leak-selector", "%s: %d selector(s) never deleted: %v", tag, len(live), firstN(live, 4))
		faiss.MonitorForgetAll()
	}
	for _, v := range faiss.MonitorViolations() {
		c.R.Fail("engine-misuse", "%s: %s", tag, v)
	}
	c.R.Inc("engine_quiescence_checks", 1)
	faiss.MonitorReset()
}

func vecBatch(rng *rand.Rand, class string, prefix string) *model.Batch {
	b := model.Gen(rng, class, model.GenOpts{Vec: true, NoBig: true, IDPrefix: prefix, Syn: rng.Intn(6) == 0})
	return b
}

// C14 — vector search: true scores, live docs, exact top-k when exact.
func c14(c *Ctx) {
	n := c.N(800, 200000)
	tallEvery := c.N(50, 60)
	for i := 0; i < n; i++ {
		if !c.Mine(i) {
			continue
		}
		rng := c.Rng(i)
		class := []string{"small", "one", "mid", "deep", "small", "mid"}[i%6]
		if i%tallEvery == tallEvery-1 {
			class = "tall" // >= 1000 vectors: clustered index
		}
		b := vecBatch(rng, class, "")
		if class == "tall" {
			// vector counts next to 1000, where the index class switches
			if target := []int{1000, 0, 1001, 999}[(i/tallEvery)%4]; target > 0 {
				for _, f := range model.VecPool {
					if model.TrimVectors([]*model.Batch{b}, f, func(int, int) bool { return true }, target) {
						c.R.Inc(fmt.Sprintf("builds_with_%d_vectors", target), 1)
						break
					}
				}
			}
		}
		m := model.Build(b)
		mode := modeFor(i, rng)
		id := fmt.Sprintf("v%d", i)
		nv := 0
		for _, vm := range m.Vec {
			nv += len(vm.Entries)
		}
		if !c.Case(id, caseDesc{Class: class, Mode: mode, Docs: len(b.Docs), FP: fpString(b.Fingerprint()), Vec: true, Extra: fmt.Sprintf("%d vectors in %d fields", nv, len(m.Vec))}) {
			continue
		}
		zx.SetChunkMode(mode)
		guard(c.R, id, func() {
			seg, _, err := zx.Build(b)
			if err != nil {
				c.R.Fail("build-err", "%s: %v", id, err)
				return
			}
			checkVectors(c, id+"/mem", seg, m, rng)
			p := c.Scratch.Path("c14")
			defer os.Remove(p)
			if err := zx.Persist(seg, p); err != nil {
				c.R.Fail("persist-err", "%s: %v", id, err)
				seg.Close()
				return
			}
			seg.Close()
			// a fresh segment per exclusion configuration
			reps := 4
			if class == "tall" {
				reps = 2
			}
			for k := 0; k < reps; k++ {
				o, err := zx.Open(p)
				if err != nil {
					c.R.Fail("open-err", "%s: %v", id, err)
					return
				}
				checkVectors(c, fmt.Sprintf("%s/opened%d", id, k), o, m, rng)
				o.Close()
			}
		})
		engineQuiescent(c, id)
		for _, vm := range m.Vec {
			if len(vm.Entries) >= 1000 {
				c.R.Inc("vec_fields_clustered", 1)
			} else {
				c.R.Inc("vec_fields_exact", 1)
			}
			c.R.Inc("vec_fields_metric_"+vm.Metric, 1)
			c.R.Inc("vec_fields_opt_"+vm.Opt, 1)
		}
		if nv >= 2 {
			c.Distinct(b.Fingerprint())
		}
		c.Sample(map[string]interface{}{"case": id, "class": class, "docs": len(b.Docs), "vectors": nv})
		c.End()
	}
}

// ---------------------------------------------------------------------------
// C16 part A: enumerated histories over one segment

type c16handle struct {
	idx    segment.VectorIndex
	except int // index into the pair
}

func exceptSets(numDocs uint64, vecDocs []uint32) []map[uint32]bool {
	half := map[uint32]bool{}
	for i, d := range vecDocs {
		if i%2 == 0 {
			half[d] = true
		}
	}
	all := map[uint32]bool{}
	for d := uint64(0); d < numDocs; d++ {
		all[uint32(d)] = true
	}
	one := map[uint32]bool{}
	if len(vecDocs) > 0 {
		one[vecDocs[len(vecDocs)/2]] = true
	}
	return []map[uint32]bool{{}, one, half, all}
}

func bmOf(s map[uint32]bool, emptyAsNil bool) *roaring.Bitmap {
	if len(s) == 0 && emptyAsNil {
		return nil
	}
	bm := roaring.New()
	for d := range s {
		bm.Add(d)
	}
	return bm
}

func c16hist(c *Ctx) {
	zap.VerifSetVecMonitorFreq(time.Hour) // the timer is parked: expiry is an explicit event
	c16clustered(c)
	maxLen := c.N(5, 7)
	rng := c.Rng(0)
	// fixture: one segment with a vector field, persisted once
	// the fixture has two vector fields that are neighbours in the field table (the
	// histories run on the higher one, some traffic goes to the lower one)
	var b *model.Batch
	var field, neighbour string
	for try := 0; ; try++ {
		b = model.Gen(rng, "small", model.GenOpts{Vec: true, NoBig: true, Docs: 7})
		m := model.Build(b)
		field, neighbour = "", ""
		fs := append([]string{}, m.Fields...)
		sort.Strings(fs)
		for k := 1; k < len(fs); k++ {
			if lo, hi := m.Vec[fs[k-1]], m.Vec[fs[k]]; lo != nil && hi != nil && len(hi.Entries) >= 5 && len(lo.Entries) >= 1 {
				field, neighbour = fs[k], fs[k-1]
			}
		}
		if field != "" {
			break
		}
		if try > 2000 {
			// no such batch drawn: fall back to the field with most vectors, no neighbour traffic
			for f, vm := range m.Vec {
				if len(vm.Entries) >= 5 && (field == "" || len(vm.Entries) > len(m.Vec[field].Entries)) {
					field = f
				}
			}
			if field != "" {
				break
			}
		}
	}
	m := model.Build(b)
	vm := m.Vec[field]
	if !c.Case("fixture", map[string]interface{}{"docs": len(b.Docs), "field": field, "vectors": len(vm.Entries), "max_events": maxLen}) {
		return
	}
	zx.SetChunkMode(1026)
	path := c.Scratch.Path("c16fix")
	defer os.Remove(path)
	okFix := false
	guard(c.R, "fixture", func() {
		s, _, err := zx.Build(b)
		if err != nil {
			c.R.Fail("build-err", "%v", err)
			return
		}
		defer s.Close()
		if err := zx.Persist(s, path); err != nil {
			c.R.Fail("persist-err", "%v", err)
			return
		}
		okFix = true
	})
	c.End()
	if !okFix {
		return
	}
	engineQuiescent(c, "fixture")
	var vecDocs []uint32
	seenDoc := map[uint32]bool{}
	for _, e := range vm.Entries {
		if !seenDoc[e.Doc] {
			seenDoc[e.Doc] = true
			vecDocs = append(vecDocs, e.Doc)
		}
	}
	sets := exceptSets(m.NumDocs, vecDocs)
	names := []string{"none", "one", "half", "all"}
	q := append([]float32(nil), vm.Entries[0].Vec...)
	vq := vecQuery{q: q, k: int64(len(vm.Entries))}
	vqf := vecQuery{q: q, k: 3, filtered: true}
	for _, d := range vecDocs {
		if len(vqf.eligible) < 3 {
			vqf.eligible = append(vqf.eligible, uint64(d))
		}
	}
	c.exh = true
	idx := 0
	// events: 0 open(e1) 1 open(e2) 2 search(h0) 3 search(h1) 4 close(h0) 5 close(h1) 6 expire 7 filtered-search(h0) 8 filtered-search(h1)
	evNames := []string{"open(e1)", "open(e2)", "search(h0)", "search(h1)", "close(h0)", "close(h1)", "expire", "fsearch(h0)", "fsearch(h1)"}
	// fmode: which slots are opened with requiresFiltering (a filtered search needs such a handle)
	fmodes := [][2]bool{{true, false}, {false, true}, {true, true}}
	for fm, filt := range fmodes {
		for a := 0; a < len(sets); a++ {
			for bb := 0; bb < len(sets); bb++ {
				if a == bb {
					continue
				}
				if fm > 0 && !c.Thorough() && (a+bb)%2 == 0 {
					continue // quick tier: the extra filter modes on half of the pairs
				}
				pair := [2]int{a, bb}
				var seq []int
				var rec func(open [2]bool, depth int)
				run := func() {
					idx++
					if !c.Mine(idx) {
						return
					}
					s := ""
					for _, e := range seq {
						s += evNames[e] + " "
					}
					id := fmt.Sprintf("H-%s-%s-f%d-%v", names[a], names[bb], fm, seq)
					if !c.Case(id, map[string]interface{}{"e1": names[a], "e2": names[bb], "filtering_slots": filt, "events": s}) {
						return
					}
					defer c.End()
					c16run(c, id, path, field, neighbour, vm, m, sets, pair, seq, vq, vqf, filt)
					c.R.Inc("c16_histories", 1)
					c.DistinctN(1)
					if idx%3000 == 1 {
						c.Sample(map[string]interface{}{"e1": names[a], "e2": names[bb], "events": s})
					}
				}
				rec = func(open [2]bool, depth int) {
					if depth > 0 {
						run()
					}
					if depth == maxLen {
						return
					}
					for e := 0; e < len(evNames); e++ {
						no := open
						switch e {
						case 0, 1:
							// a new handle goes to the first free slot
							slot := -1
							if !open[0] {
								slot = 0
							} else if !open[1] {
								slot = 1
							}
							if slot < 0 {
								continue
							}
							no[slot] = true
						case 2:
							if !open[0] {
								continue
							}
						case 7:
							if !open[0] || !filt[0] {
								continue
							}
						case 3:
							if !open[1] {
								continue
							}
						case 8:
							if !open[1] || !filt[1] {
								continue
							}
						case 4:
							if !open[0] {
								continue
							}
							no[0] = false
						case 5:
							if !open[1] {
								continue
							}
							no[1] = false
						case 6:
							if depth == 0 {
								continue
							}
						}
						seq = append(seq, e)
						rec(no, depth+1)
						seq = seq[:len(seq)-1]
					}
				}
				rec([2]bool{}, 0)
			}
		}
	}
}

func c16run(c *Ctx, id, path, field, neighbour string, vm *model.VecModel, m *model.Seg, sets []map[uint32]bool, pair [2]int, seq []int, vq, vqf vecQuery, filt [2]bool) {
	r := c.R
	guard(r, id, func() {
		seg, err := zx.Open(path)
		if err != nil {
			r.Fail("open-err", "%s: %v", id, err)
			return
		}
		vs := seg.(segment.VectorSegment)
		var hs [2]*c16handle
		evicted := false
		for step, e := range seq {
			tag := fmt.Sprintf("%s step %d", id, step)
			switch e {
			case 0, 1:
				slot := 0
				if hs[0] != nil {
					slot = 1
				}
				ex := sets[pair[e]]
				idx, err := vs.InterpretVectorIndex(field, filt[slot], bmOf(ex, step%3 == 0))
				if err != nil || idx == nil {
					r.Fail("vec-open-err", "%s: %v", tag, err)
					return
				}
				hs[slot] = &c16handle{idx, pair[e]}
				if evicted {
					r.Inc("c16_reload_after_eviction", 1)
					evicted = false
				}
			case 2, 3, 7, 8:
				h := hs[0]
				if e == 3 || e == 8 {
					h = hs[1]
				}
				q := vq
				if e >= 7 {
					q = vqf
				}
				got, ok := searchHandle(r, tag, h.idx, q)
				if ok {
					checkVecResult(r, tag+" (own exclusion set of this handle)", vm, sets[h.except], q, got, true)
				}
				r.Inc("c16_searches", 1)
			case 4, 5:
				hs[e-4].idx.Close()
				hs[e-4] = nil
			case 6:
				if neighbour != "" {
					// traffic on the neighbouring vector field: opened, searched and closed
					// while the handles of this history stay as they are
					nvm := m.Vec[neighbour]
					nq := vecQuery{q: append([]float32(nil), nvm.Entries[0].Vec...), k: int64(len(nvm.Entries))}
					if got, ok := searchOnce(r, tag+" (neighbour field)", vs, neighbour, nil, nq); ok {
						checkVecResult(r, tag+" (neighbour field)", nvm, nil, nq, got, true)
					}
					r.Inc("c16_neighbour_field_uses", 1)
				}
				before := zap.VerifVecCacheLen(seg)
				_, closedBefore := faiss.MonitorIndexCounts()
				for p := 0; p < 4; p++ {
					zap.VerifVecCacheExpire(seg)
				}
				if n := before - zap.VerifVecCacheLen(seg); n > 0 {
					evicted = true
					r.Inc("c16_evictions", 1)
					// the evicted index is released by an asynchronous closer: let it
					// finish (bounded), so that a release of an index that is still in
					// use is visible to the very next event
					for w := 0; w < 4000; w++ {
						if _, cl := faiss.MonitorIndexCounts(); cl >= closedBefore+int64(n) {
							break
						}
						if w < 100 {
							runtime.Gosched()
						} else {
							time.Sleep(50 * time.Microsecond)
						}
					}
				}
			}
			for _, v := range faiss.MonitorViolations() {
				r.Fail("engine-misuse", "%s: %s", tag, v)
			}
		}
		// segment-close event: in half of the histories that end with a handle
		// still open, the segment is closed first and the handle afterwards
		sum, stillOpen := 0, hs[0] != nil || hs[1] != nil
		for _, e := range seq {
			sum += e
		}
		if stillOpen && sum%2 == 1 {
			seg.Close()
			seg = nil
			r.Inc("c16_segment_closed_before_handles", 1)
		}
		for _, h := range hs {
			if h != nil {
				h.idx.Close()
			}
		}
		if seg != nil {
			seg.Close()
		}
	})
	engineQuiescent(c, id)
}

// C16 part B: concurrent searchers with the expiry monitor running.
func c16stress(c *Ctx) {
	zap.VerifSetVecMonitorFreq(time.Millisecond)
	rounds := c.N(60, 4000)
	for i := 0; i < rounds; i++ {
		if !c.Mine(i) {
			continue
		}
		rng := c.Rng(i)
		b := vecBatch(rng, []string{"small", "mid"}[i%2], "")
		m := model.Build(b)
		if len(m.Vec) == 0 {
			continue
		}
		g := []int{8, 16, 32}[i%3]
		id := fmt.Sprintf("S%d", i)
		if !c.Case(id, map[string]interface{}{"goroutines": g, "docs": len(b.Docs), "fp": fpString(b.Fingerprint())}) {
			continue
		}
		zx.SetChunkMode(1026)
		guard(c.R, id, func() {
			s, _, err := zx.Build(b)
			if err != nil {
				c.R.Fail("build-err", "%s: %v", id, err)
				return
			}
			p := c.Scratch.Path("c16s")
			defer os.Remove(p)
			if err := zx.Persist(s, p); err != nil {
				c.R.Fail("persist-err", "%s: %v", id, err)
				return
			}
			s.Close()
			o, err := zx.Open(p)
			if err != nil {
				c.R.Fail("open-err", "%s: %v", id, err)
				return
			}
			vs := o.(segment.VectorSegment)
			var fields []string
			for f := range m.Vec {
				fields = append(fields, f)
			}
			// cold-cache duels: two openers of the same field, one with and one without
			// filtering, released together on an empty cache; the unfiltered handle
			// stays open across expiry ticks after the filtered one was closed
			for duel := 0; duel < 12; duel++ {
				f := fields[duel%len(fields)]
				vm := m.Vec[f]
				qs := genQueries(rng, vm, m.NumDocs, true)
				var uq, fq vecQuery
				for _, q := range qs {
					if len(q.q) != vm.Dims {
						continue
					}
					if q.filtered {
						fq = q
					} else {
						uq = q
					}
				}
				if uq.q == nil || fq.q == nil {
					continue
				}
				for p := 0; p < 6 && zap.VerifVecCacheLen(o) > 0; p++ {
					zap.VerifVecCacheExpire(o)
				}
				exSet, exBM := genExcept(rng, m.NumDocs, duel%5)
				start := make(chan struct{})
				filteredClosed := make(chan struct{})
				var dw sync.WaitGroup
				for side := 0; side < 2; side++ {
					dw.Add(1)
					go func(side int) {
						defer dw.Done()
						vq := uq
						if side == 1 {
							vq = fq
						}
						tag := fmt.Sprintf("%s duel %d field %q filtered=%v", id, duel, f, vq.filtered)
						<-start
						idx, err := vs.InterpretVectorIndex(f, vq.filtered, exBM)
						if err != nil {
							c.R.Fail("vec-open-err", "%s: %v", tag, err)
							if side == 1 {
								close(filteredClosed)
							}
							return
						}
						if got, ok := searchHandle(c.R, tag, idx, vq); ok {
							checkVecResult(c.R, tag, vm, exSet, vq, got, exactFor(len(vm.Entries), vq))
						}
						if side == 1 {
							idx.Close()
							close(filteredClosed)
							return
						}
						<-filteredClosed
						for p := 0; p < 4; p++ {
							zap.VerifVecCacheExpire(o)
						}
						time.Sleep(200 * time.Microsecond) // an evicted index is closed asynchronously
						if got, ok := searchHandle(c.R, tag+" (after the other handle was closed and expiry ticks)", idx, vq); ok {
							checkVecResult(c.R, tag+" (after the other handle was closed and expiry ticks)", vm, exSet, vq, got, exactFor(len(vm.Entries), vq))
						}
						idx.Close()
					}(side)
				}
				close(start)
				dw.Wait()
				for _, v := range faiss.MonitorViolations() {
					c.R.Fail("engine-misuse", "%s duel %d: %s", id, duel, v)
				}
				c.R.Inc("c16_cold_cache_duels", 1)
			}
			var wg sync.WaitGroup
			for j := 0; j < g; j++ {
				grng := rand.New(rand.NewSource(rng.Int63()))
				wg.Add(1)
				go func(j int, grng *rand.Rand) {
					defer wg.Done()
					for k := 0; k < 30; k++ {
						f := fields[grng.Intn(len(fields))]
						vm := m.Vec[f]
						exSet, exBM := genExcept(grng, m.NumDocs, grng.Intn(5))
						qs := genQueries(grng, vm, m.NumDocs, true)
						vq := qs[grng.Intn(len(qs))]
						tag := fmt.Sprintf("%s g%d op%d field %q |except|=%d", id, j, k, f, len(exSet))
						idx, err := vs.InterpretVectorIndex(f, vq.filtered, exBM)
						if err != nil {
							c.R.Fail("vec-open-err", "%s: %v", tag, err)
							return
						}
						if grng.Intn(3) == 0 {
							time.Sleep(time.Duration(grng.Intn(3)) * time.Millisecond) // let the expiry monitor tick while the handle is open
						}
						got, ok := searchHandle(c.R, tag, idx, vq)
						if ok {
							checkVecResult(c.R, tag, vm, exSet, vq, got, exactFor(len(vm.Entries), vq))
						}
						idx.Close()
						if grng.Intn(4) == 0 {
							time.Sleep(2 * time.Millisecond) // idle: lets entries expire between uses
						}
						c.R.Inc("c16_stress_searches", 1)
					}
				}(j, grng)
			}
			wg.Wait()
			o.Close()
		})
		engineQuiescent(c, id)
		created, closed := faiss.MonitorIndexCounts()
		c.R.Max("max_engine_indexes_created", created)
		c.R.Max("max_engine_indexes_closed", closed)
		c.R.Inc("c16_stress_rounds", 1)
		c.Distinct(b.Fingerprint())
		c.End()
	}
}

// ---------------------------------------------------------------------------
// C19: the n-th call of each engine operation fails

var c19ops = []string{"IndexFactory", "SetDirectMap", "Train", "AddWithIDs", "WriteIndexIntoBuffer", "ReadIndexFromBuffer", "ReconstructBatch"}

func c19(c *Ctx) {
	n := c.N(60, 20000)
	for i := 0; i < n; i++ {
		if !c.Mine(i) {
			continue
		}
		rng := c.Rng(i)
		big := i%6 >= 4 // >= 1000 vectors: IVF, so Train / SetDirectMap run (i%6 == 4: build, 5: merge)
		mergeCase := i%2 == 1
		var bs []*model.Batch
		nb := 1
		if mergeCase {
			nb = 2 + rng.Intn(3)
		}
		for l := 0; l < nb; l++ {
			cl := []string{"small", "mid", "one"}[rng.Intn(3)]
			if big && l == 0 {
				cl = "tall"
			}
			bs = append(bs, model.Gen(rng, cl, model.GenOpts{Vec: true, NoBig: true, IDPrefix: fmt.Sprintf("f%d-", l), VecSalt: 1 + i%997}))
		}
		if big && i%12 == 11 {
			// more than 4096 surviving vectors in one field: twelve vectors per field
			// instance of the tall leaf (an engine that is filled in several calls
			// must report the failure of any of them)
			many := 0
			for di := range bs[0].Docs {
				for vi := range bs[0].Docs[di].Vecs {
					vf := &bs[0].Docs[di].Vecs[vi]
					for len(vf.Vec) < 12*vf.Dims {
						for k := 0; k < vf.Dims; k++ {
							vf.Vec = append(vf.Vec, float32(rng.Intn(17)-8)/4)
						}
					}
					many += len(vf.Vec) / vf.Dims
				}
			}
			c.R.Max("max_vectors_in_a_faulted_merge", int64(many))
		}
		id := fmt.Sprintf("e%d", i)
		op := "build"
		if mergeCase {
			op = "merge"
		}
		fp := uint64(0)
		for _, b := range bs {
			fp = fp*31 + b.Fingerprint()
		}
		if !c.Case(id, map[string]interface{}{"op": op, "ivf": big, "inputs": nb, "fp": fpString(fp)}) {
			continue
		}
		zx.SetChunkMode(1026)
		if mergeCase {
			c19merge(c, id, rng, bs)
		} else {
			c19build(c, id, rng, bs[0])
		}
		c.Distinct(fp)
		c.End()
	}
}

func c19build(c *Ctx, id string, rng *rand.Rand, b *model.Batch) {
	m := model.Build(b)
	faiss.SetFaultPlan(nil)
	var calls map[string]int
	guard(c.R, id+" fault-free", func() {
		s, _, err := zx.Build(b)
		if err != nil {
			c.R.Fail("build-err", "%s: fault-free New: %v", id, err)
			return
		}
		calls = faiss.MonitorCalls()
		checkVectors(c, id+"/fault-free", s, m, rng)
		s.Close()
	})
	engineQuiescent(c, id+" fault-free")
	if calls == nil {
		return
	}
	points := 0
	for _, op := range c19ops {
		for n := 1; n <= calls[op]; n++ {
			tag := fmt.Sprintf("%s build with %s call %d/%d failing", id, op, n, calls[op])
			faiss.SetFaultPlan(map[string]map[int]bool{op: {n: true}})
			guard(c.R, tag, func() {
				s, _, err := zx.Build(b)
				faiss.SetFaultPlan(nil)
				if err != nil {
					c.R.Inc("c19_faults_surfaced", 1)
					return
				}
				// no error: then nothing may be missing
				before := c.R.Failed()
				checkVectors(c, tag, s, m, rng)
				s.Close()
				if !before && c.R.Failed() {
					c.R.Fail("engine-fault-swallowed", "%s: New returned no error and the segment's vector content is wrong (see the preceding entries)", tag)
				} else {
					c.R.Inc("c19_faults_harmless", 1)
				}
			})
			faiss.SetFaultPlan(nil)
			engineQuiescent(c, tag)
			points++
			c.R.Inc("c19_fault_points_build", 1)
			c.R.Inc("c19_fault_points_op_"+op, 1)
			if c.R.Failed() {
				return
			}
		}
	}
	c.Sample(map[string]interface{}{"case": id, "op": "build", "engine_calls": calls, "fault_points": points})
}

func c19merge(c *Ctx, id string, rng *rand.Rand, bs []*model.Batch) {
	var ms []*model.Seg
	var ins []segment.Segment
	defer func() {
		for _, s := range ins {
			s.Close()
		}
		engineQuiescent(c, id+" end")
	}()
	for _, b := range bs {
		ms = append(ms, model.Build(b))
		s, _, err := zx.Build(b)
		if err != nil {
			c.R.Fail("build-err", "%s: %v", id, err)
			return
		}
		ins = append(ins, s)
	}
	var drops []map[uint32]bool
	for k, m := range ms {
		d := randDrops(rng, m.NumDocs, 3)
		if len(ms) >= 3 && k < len(ms)-2 && rng.Intn(2) == 0 {
			// an input whose vectors are all obsolete: it is skipped, not loaded
			d = map[uint32]bool{}
			for x := uint64(0); x < m.NumDocs; x++ {
				d[uint32(x)] = true
			}
		}
		drops = append(drops, d)
	}
	mm, _ := model.Merge(ms, drops)
	bm := zx.Drops(drops, nil)
	path, outDir := outPath(c, "c19m")
	defer os.RemoveAll(outDir)
	faiss.SetFaultPlan(nil)
	faiss.MonitorReset()
	// small output buffers: data has reached the file when the engine fails
	zx.SetMergeBuffer([]int{1 << 20, 64, 4096}[rng.Intn(3)])
	defer zx.SetMergeBuffer(1 << 20)
	var calls map[string]int
	guard(c.R, id+" fault-free", func() {
		_, _, err := zx.Merge(ins, bm, path, nil, nil)
		if err != nil {
			c.R.Fail("merge-err", "%s: fault-free Merge: %v", id, err)
			return
		}
		calls = faiss.MonitorCalls()
		o, err := zx.Open(path)
		if err != nil {
			c.R.Fail("open-err", "%s: %v", id, err)
			return
		}
		checkVectors(c, id+"/fault-free", o, mm, rng)
		o.Close()
	})
	if calls == nil || c.R.Failed() {
		return
	}
	points := 0
	for _, op := range c19ops {
		for n := 1; n <= calls[op]; n++ {
			tag := fmt.Sprintf("%s merge with %s call %d/%d failing", id, op, n, calls[op])
			os.Remove(path)
			if (n+len(op))%2 == 0 {
				// the destination already exists as an empty file (a reserved name)
				os.WriteFile(path, nil, 0600)
				c.R.Inc("engine_faults_with_preexisting_empty_destination", 1)
			}
			faiss.SetFaultPlan(map[string]map[int]bool{op: {n: true}})
			guard(c.R, tag, func() {
				_, _, err := zx.Merge(ins, bm, path, nil, nil)
				faiss.SetFaultPlan(nil)
				if err != nil {
					if exists(path) {
						c.R.Fail("engine-fault-file-left", "%s: Merge failed (%v) but left a file", tag, err)
					} else if l := listDir(outDir); len(l) > 0 {
						c.R.Fail("engine-fault-file-left", "%s: Merge failed (%v) but left %v in the output directory", tag, err, l)
						os.RemoveAll(outDir)
						os.MkdirAll(outDir, 0755)
					}
					c.R.Inc("c19_faults_surfaced", 1)
					return
				}
				o, err := zx.Open(path)
				if err != nil {
					c.R.Fail("engine-fault-swallowed", "%s: Merge returned no error but the output does not open: %v", tag, err)
					return
				}
				before := c.R.Failed()
				checkVectors(c, tag, o, mm, rng)
				o.Close()
				if !before && c.R.Failed() {
					c.R.Fail("engine-fault-swallowed", "%s: Merge returned no error and the output's vector content is wrong (see the preceding entries)", tag)
				} else {
					c.R.Inc("c19_faults_harmless", 1)
				}
			})
			faiss.SetFaultPlan(nil)
			// the inputs stay open: only indexes created by the merge must be gone
			engineQuiescent(c, tag)
			points++
			c.R.Inc("c19_fault_points_merge", 1)
			c.R.Inc("c19_fault_points_op_"+op, 1)
			if c.R.Failed() {
				return
			}
		}
	}
	c.Sample(map[string]interface{}{"case": id, "op": "merge", "engine_calls": calls, "fault_points": points})
}

var _ = oracle.NewReport

// c18engineCancel closes the merge's channel inside the j-th engine call, for
// every j of the uncancelled merge (the engine double's op hook runs at the
// start of every engine operation).
func c18engineCancel(c *Ctx, id string, p *c18plan, ins []segment.Segment, bm []*roaring.Bitmap, path string, rng *rand.Rand, counts map[string]int64) {
	total := 0
	faiss.SetOpHook(func(op string, n int) { total++ })
	os.Remove(path)
	_, _, err := zx.Merge(ins, bm, path, make(chan struct{}), nil)
	faiss.SetOpHook(nil)
	if err != nil {
		c.R.Fail("merge-err", "%s: uncancelled merge (engine-call count): %v", id, err)
		return
	}
	for j := 1; j <= total; j++ {
		os.Remove(path)
		if j%3 == 2 {
			os.WriteFile(path, nil, 0600)
			c.R.Inc("cancels_with_preexisting_empty_destination", 1)
		}
		ch := make(chan struct{})
		seen := 0
		var at string
		faiss.SetOpHook(func(op string, n int) {
			seen++
			if seen == j {
				at = op
				close(ch)
			}
		})
		var err error
		tag := fmt.Sprintf("%s cancel@engine call %d/%d", id, j, total)
		guard(c.R, tag, func() { _, _, err = zx.Merge(ins, bm, path, ch, nil) })
		faiss.SetOpHook(nil)
		out := c18outcome(c, tag+" ("+at+")", p, path, err, rng)
		counts["engine_"+out]++
		counts["phase_engine_call"]++
		engineQuiescentKeepInputs(c, tag)
		if out == "bad" {
			return
		}
	}
}

// engineQuiescentKeepInputs: like engineQuiescent; the (unsearched, in-memory)
// inputs hold no native index, so anything alive was leaked by the merge.
func engineQuiescentKeepInputs(c *Ctx, tag string) { engineQuiescent(c, tag) }

// c16clustered: part A on a clustered index (>= 1000 vectors, the engine's default
// search parameters: the result is approximate, but it is a function of the query,
// k, the eligible set and the exclusion bitmap alone). Every kind of search is first
// answered by a freshly opened segment (cold cache, no earlier search); a random
// history of those searches and expiry passes on one more opening of the segment
// must give the same answers.
func c16clustered(c *Ctx) {
	n := c.N(16, 800)
	for j := 0; j < n; j++ {
		if !c.Mine(j) {
			continue
		}
		rng := c.Rng(5000 + j)
		b := model.Gen(rng, "tall", model.GenOpts{Vec: true, NoBig: true, MaxTerms: 3})
		m := model.Build(b)
		field := ""
		for f, vm := range m.Vec {
			if len(vm.Entries) >= 1000 && (field == "" || f < field) {
				field = f
			}
		}
		id := fmt.Sprintf("K%d", j)
		if field == "" {
			continue
		}
		vm := m.Vec[field]
		if !c.Case(id, map[string]interface{}{"docs": len(b.Docs), "field": field, "vectors": len(vm.Entries), "fp": fpString(b.Fingerprint())}) {
			continue
		}
		zx.SetChunkMode(1026)
		path := c.Scratch.Path("c16k")
		guard(c.R, id, func() {
			defer os.Remove(path)
			s, _, err := zx.Build(b)
			if err != nil {
				c.R.Fail("build-err", "%s: %v", id, err)
				return
			}
			err = zx.Persist(s, path)
			s.Close()
			if err != nil {
				c.R.Fail("persist-err", "%s: %v", id, err)
				return
			}
			var vecDocs []uint32
			seen := map[uint32]bool{}
			for _, e := range vm.Entries {
				if !seen[e.Doc] {
					seen[e.Doc] = true
					vecDocs = append(vecDocs, e.Doc)
				}
			}
			half := map[uint32]bool{}
			for k, d := range vecDocs {
				if k%2 == 1 {
					half[d] = true
				}
			}
			q := append([]float32(nil), vm.Entries[rng.Intn(len(vm.Entries))].Vec...)
			// kinds of search: unfiltered with small and full k; filtered with a sparse and a
			// dense eligible set; each with no exclusions and with half of the documents excluded
			type kind struct {
				name string
				vq   vecQuery
				ex   map[uint32]bool
			}
			var kinds []kind
			for _, ex := range []map[uint32]bool{nil, half} {
				exName := "none"
				if ex != nil {
					exName = "half"
				}
				kinds = append(kinds,
					kind{"search k=10 except " + exName, vecQuery{q: q, k: 10}, ex},
					kind{"search k=all except " + exName, vecQuery{q: q, k: int64(len(vm.Entries))}, ex})
				for _, every := range []int{97, 3} {
					var el []uint64
					for k, d := range vecDocs {
						if k%every == 0 && !ex[d] {
							el = append(el, uint64(d))
						}
					}
					if len(el) == 0 {
						continue
					}
					kinds = append(kinds, kind{fmt.Sprintf("filtered search 1/%d k=all except %s", every, exName), vecQuery{q: q, k: int64(len(el)), filtered: true, eligible: el}, ex})
				}
			}
			sorted := func(ps []vecPair) []vecPair {
				out := append([]vecPair(nil), ps...)
				sort.Slice(out, func(a, b int) bool {
					if out[a].doc != out[b].doc {
						return out[a].doc < out[b].doc
					}
					return out[a].score < out[b].score
				})
				return out
			}
			same := func(a, b []vecPair) bool {
				if len(a) != len(b) {
					return false
				}
				for k := range a {
					if a[k] != b[k] {
						return false
					}
				}
				return true
			}
			refs := make([][]vecPair, len(kinds))
			for k, kd := range kinds {
				seg, err := zx.Open(path)
				if err != nil {
					c.R.Fail("open-err", "%s: %v", id, err)
					return
				}
				got, ok := searchOnce(c.R, id+" first "+kd.name, seg.(segment.VectorSegment), field, bmOf(kd.ex, false), kd.vq)
				seg.Close()
				if !ok {
					return
				}
				refs[k] = sorted(got)
			}
			seg, err := zx.Open(path)
			if err != nil {
				c.R.Fail("open-err", "%s: %v", id, err)
				return
			}
			defer seg.Close()
			vs := seg.(segment.VectorSegment)
			hist := ""
			for step := 0; step < 14; step++ {
				if step > 0 && rng.Intn(5) == 0 {
					for p := 0; p < 4; p++ {
						zap.VerifVecCacheExpire(seg)
					}
					hist += "expire; "
					c.R.Inc("c16_clustered_expiries", 1)
					continue
				}
				k := rng.Intn(len(kinds))
				kd := kinds[k]
				got, ok := searchOnce(c.R, id+" "+kd.name, vs, field, bmOf(kd.ex, false), kd.vq)
				if !ok {
					return
				}
				if g := sorted(got); !same(g, refs[k]) {
					c.R.Fail("depends-on-history", "%s: %s after [%s] returns %d hits, on a freshly opened segment %d hits (or other scores): the answer depends on earlier searches", id, kd.name, hist, len(g), len(refs[k]))
					return
				}
				hist += kd.name + "; "
				c.R.Inc("c16_clustered_searches_compared", 1)
			}
			c.R.Inc("c16_clustered_histories", 1)
		})
		engineQuiescent(c, id)
		c.DistinctN(1)
		c.End()
	}
}
