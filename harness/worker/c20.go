package main

import (
	"bufio"
	"fmt"
	"math/rand"
	"os"
	"runtime"
	"runtime/debug"
	"strings"
	"sync"

	segment "github.com/blevesearch/scorch_segment_api/v2"

	"verif/harness/model"
	"verif/harness/oracle"
	"verif/harness/zx"
)

func init() {
	workloads["C20"] = c20seq
	workloads["C20c"] = c20conc
}

// procState reports whether path is mapped into this process and whether a
// file descriptor still refers to it.
func procState(path string) (mapped bool, fds int) {
	if f, err := os.Open("/proc/self/maps"); err == nil {
		sc := bufio.NewScanner(f)
		for sc.Scan() {
			if strings.HasSuffix(sc.Text(), path) || strings.Contains(sc.Text(), path+" (deleted)") {
				mapped = true
			}
		}
		f.Close()
	}
	ents, _ := os.ReadDir("/proc/self/fd")
	for _, e := range ents {
		if l, err := os.Readlink("/proc/self/fd/" + e.Name()); err == nil && (l == path || l == path+" (deleted)") {
			fds++
		}
	}
	return
}

// sampleRead is a full-surface sample: dictionary walk + postings, stored
// fields, ids, doc values of a few documents.
func sampleRead(r *oracle.Report, tag string, s segment.Segment, m *model.Seg, rng *rand.Rand) {
	guard(r, tag+" read", func() {
		oracle.CheckPostings(r, tag, s, m, oracle.PostOpts{MaxTerms: 4})
		oracle.CheckStored(r, tag, s, m, 1)
		oracle.CheckDocValues(r, []oracle.DVTarget{{Tag: tag, Seg: s, M: m}}, rng, 1024, nil)
		thesLight(r, tag, s, m, rng)
		if m.NumDocs > 0 {
			d := uint64(rng.Int63n(int64(m.NumDocs)))
			bm, err := s.DocNumbers([]string{m.IDs[d], "zz-absent"})
			if err != nil || bm == nil || !bm.Contains(uint32(d)) {
				r.Fail("docnumbers", "%s: DocNumbers(%q) = %v, %v", tag, m.IDs[d], bm, err)
			}
		}
		if VecBuild {
			checkVectorsLight(r, tag, s, m, rng)
		}
		r.Inc("reads_between_operations", 1)
	})
}

func c20fixture(c *Ctx, rng *rand.Rand) (*model.Batch, *model.Seg, []byte, bool) {
	b := model.Gen(rng, "small", model.GenOpts{NoBig: true, Syn: true, Vec: VecBuild})
	forceDV(b, rng)
	m := model.Build(b)
	zx.SetChunkMode(1026)
	s, _, err := zx.Build(b)
	if err != nil {
		c.R.Fail("build-err", "fixture: %v", err)
		return nil, nil, nil, false
	}
	p := c.Scratch.Path("c20fix")
	defer os.Remove(p)
	if err := zx.Persist(s, p); err != nil {
		c.R.Fail("persist-err", "fixture: %v", err)
		return nil, nil, nil, false
	}
	// in-memory segment: Close is harmless, reads fine before it
	sampleRead(c.R, "in-memory", s, m, rng)
	s.AddRef()
	if err := s.DecRef(); err != nil {
		c.R.Fail("mem-decref", "in-memory DecRef: %v", err)
	}
	sampleRead(c.R, "in-memory after AddRef/DecRef", s, m, rng)
	filled := zx.SynCacheLen(s)
	if err := s.Close(); err != nil {
		c.R.Fail("mem-close", "in-memory Close: %v", err)
	}
	// "releases its caches": the synonym cache is observable through the hook
	// (the vector cache through the engine monitor)
	if len(m.Thes) > 0 {
		if filled <= 0 {
			c.R.Fail("harness", "fixture: thesaurus lookups left the synonym cache empty (%d)", filled)
		} else if n := zx.SynCacheLen(s); n != 0 {
			c.R.Fail("cache-not-released", "in-memory Close left %d thesauri in the synonym cache", n)
		}
		c.R.Inc("synonym_cache_release_checked", 1)
	}
	// "harmless": dictionaries, postings, stored fields and doc values of an
	// in-memory segment are still there after Close (only its caches go)
	guard(c.R, "in-memory after Close", func() {
		oracle.CheckPostings(c.R, "in-memory after Close", s, m, oracle.PostOpts{MaxTerms: 4})
		oracle.CheckStored(c.R, "in-memory after Close", s, m, 1)
		oracle.CheckDocValues(c.R, []oracle.DVTarget{{Tag: "in-memory after Close", Seg: s, M: m}}, rng, 1024, nil)
	})
	c.R.Inc("in_memory_close_checked", 1)
	return b, m, readFile(p), true
}

// C20 part A: every balanced sequence of AddRef/DecRef/Close up to the bound.
func c20seq(c *Ctx) {
	maxAdd := c.N(4, 7) // length <= 2*maxAdd+1
	rng := c.Rng(0)
	if !c.Case("fixture", map[string]interface{}{"max_addrefs": maxAdd}) {
		return
	}
	_, m, data, ok := c20fixture(c, rng)
	c.End()
	if !ok {
		return
	}
	if c.Shard == 0 {
		c20failedOpens(c)
		c20manyHolders(c, m, data, rng)
	}
	c.exh = true
	idx := 0
	var seq []byte
	var rec func(refs, adds int)
	run := func(s string) {
		idx++
		if !c.Mine(idx) {
			return
		}
		id := "seq-" + s
		if !c.Case(id, map[string]interface{}{"ops": s}) {
			return
		}
		defer c.End()
		path := c.Scratch.Path("c20-" + s)
		if err := os.WriteFile(path, data, 0600); err != nil {
			c.R.Fail("harness", "%v", err)
			return
		}
		defer os.Remove(path)
		seg, err := zx.Open(path)
		if err != nil {
			c.R.Fail("open-err", "%s: %v", id, err)
			return
		}
		refs := 1
		if mp, fd := procState(path); !mp || fd != 1 {
			c.R.Fail("proc-after-open", "%s: after Open: mapped=%v fds=%d", id, mp, fd)
		}
		if idx%4 == 0 {
			// the segment as the input of merges that fail, are abandoned, or succeed:
			// a merge is one more reader; it must not keep the segment alive
			mout := c.Scratch.Path("c20m")
			closed := make(chan struct{})
			close(closed)
			guard(c.R, id+" merges", func() {
				if _, _, err := zx.Merge(segs(seg), zx.Drops([]map[uint32]bool{nil}, nil), mout, closed, nil); err == nil {
					c.R.Fail("merge-not-cancelled", "%s: a merge with a closed channel succeeded", id)
				}
				if _, _, err := zx.Merge(segs(seg), zx.Drops([]map[uint32]bool{nil}, nil), mout+".dir-that-does-not-exist/x.zap", nil, nil); err == nil {
					c.R.Fail("merge-bad-path", "%s: a merge into a directory that does not exist succeeded", id)
				}
				if idx%8 == 0 {
					if _, _, err := zx.Merge(segs(seg), zx.Drops([]map[uint32]bool{nil}, nil), mout, nil, nil); err != nil {
						c.R.Fail("merge-err", "%s: %v", id, err)
					}
				}
			})
			os.Remove(mout)
			c.R.Inc("sequences_with_merges_of_the_segment", 1)
		}
		for k := 0; k < len(s); k++ {
			sampleRead(c.R, fmt.Sprintf("%s before op %d", id, k), seg, m, rng)
			var err error
			switch s[k] {
			case 'A':
				seg.AddRef()
				refs++
			case 'D':
				err = seg.DecRef()
				refs--
			case 'C':
				err = seg.Close()
				refs--
			}
			if err != nil {
				c.R.Fail("release-error", "%s: op %d (%c) returned %v (model count now %d)", id, k, s[k], err, refs)
			}
			mp, fd := procState(path)
			if refs > 0 && (!mp || fd != 1) {
				c.R.Fail("released-early", "%s: after op %d (%c) count %d > 0 but mapped=%v fds=%d", id, k, s[k], refs, mp, fd)
			}
			if refs == 0 && (mp || fd != 0) {
				c.R.Fail("not-released", "%s: after the final release mapped=%v fds=%d", id, mp, fd)
			}
			if len(m.Thes) > 0 {
				n := zx.SynCacheLen(seg)
				if refs > 0 && n <= 0 {
					c.R.Fail("cache-released-early", "%s: after op %d (%c) count %d > 0 but the synonym cache was dropped (%d)", id, k, s[k], refs, n)
				}
				if refs == 0 && n != 0 {
					c.R.Fail("cache-not-released", "%s: after the final release the synonym cache still holds %d thesauri", id, n)
				}
				c.R.Inc("synonym_cache_release_checked", 1)
			}
			c.R.Inc("proc_inspections", 1)
		}
		c.R.Inc("sequences", 1)
		c.DistinctN(1)
		if idx%500 == 1 {
			c.Sample(map[string]interface{}{"sequence": s})
		}
	}
	rec = func(refs, adds int) {
		// a release that brings the count to 0 ends the sequence
		for _, op := range []byte{'D', 'C'} {
			seq = append(seq, op)
			if refs == 1 {
				run(string(seq))
			} else {
				rec(refs-1, adds)
			}
			seq = seq[:len(seq)-1]
		}
		if adds < maxAdd {
			seq = append(seq, 'A')
			rec(refs+1, adds+1)
			seq = seq[:len(seq)-1]
		}
	}
	rec(1, 0)
}

// C20 part B: concurrent holders (race flavour).
func c20conc(c *Ctx) {
	rounds := c.N(300, 30000)
	rng0 := c.Rng(0)
	if !c.Case("fixture", nil) {
		return
	}
	_, m, data, ok := c20fixture(c, rng0)
	c.End()
	if !ok {
		return
	}
	for i := 0; i < rounds; i++ {
		if !c.Mine(i) {
			continue
		}
		rng := c.Rng(i + 1)
		holders := []int{2, 4, 16, 8}[i%4]
		procs := []int{2, 16, 4}[(i/4)%3]
		ownerAt := rng.Intn(holders + 1) // the owner closes after this many holders were started
		id := fmt.Sprintf("k%d", i)
		if !c.Case(id, map[string]interface{}{"holders": holders, "gomaxprocs": procs, "owner_closes_after": ownerAt}) {
			continue
		}
		func() {
			defer c.End()
			path := c.Scratch.Path("c20c")
			if err := os.WriteFile(path, data, 0600); err != nil {
				c.R.Fail("harness", "%v", err)
				return
			}
			defer os.Remove(path)
			seg, err := zx.Open(path)
			if err != nil {
				c.R.Fail("open-err", "%s: %v", id, err)
				return
			}
			old := runtime.GOMAXPROCS(procs)
			defer runtime.GOMAXPROCS(old)
			var wg sync.WaitGroup
			gate := make(chan struct{})
			for h := 0; h <= holders; h++ {
				if h == ownerAt {
					// the owner drops its reference at a seeded point
					wg.Add(1)
					go func() {
						defer wg.Done()
						<-gate
						if err := seg.Close(); err != nil {
							c.R.Fail("release-error", "%s: owner Close: %v", id, err)
						}
					}()
				}
				if h == holders {
					break
				}
				seg.AddRef() // taken on behalf of the holder, while the owner still holds its own
				hr := rand.New(rand.NewSource(rng.Int63()))
				wg.Add(1)
				go func(h int, hr *rand.Rand) {
					defer wg.Done()
					debug.SetPanicOnFault(true)
					<-gate
					tag := fmt.Sprintf("%s holder %d", id, h)
					nested := hr.Intn(3) == 0
					if nested {
						seg.AddRef()
					}
					for y := hr.Intn(3); y > 0; y-- {
						runtime.Gosched()
					}
					sampleRead(c.R, tag, seg, m, hr)
					if nested {
						if err := seg.DecRef(); err != nil {
							c.R.Fail("release-error", "%s: nested DecRef: %v", tag, err)
						}
						sampleRead(c.R, tag+" (after nested release)", seg, m, hr)
					}
					var err error
					if h%2 == 0 {
						err = seg.DecRef()
					} else {
						err = seg.Close()
					}
					if err != nil {
						c.R.Fail("release-error", "%s: release: %v", tag, err)
					}
				}(h, hr)
			}
			close(gate)
			wg.Wait()
			if mp, fd := procState(path); mp || fd != 0 {
				c.R.Fail("not-released", "%s: after all holders released: mapped=%v fds=%d", id, mp, fd)
			}
			c.R.Inc("concurrent_release_rounds", 1)
			c.R.Inc("concurrent_holders", int64(holders))
			c.Distinct(uint64(i)<<8 | uint64(holders))
			if i < 3 {
				c.Sample(map[string]interface{}{"case": id, "holders": holders, "gomaxprocs": procs, "owner_closes_after": ownerAt})
			}
		}()
	}
}

// thesLight: one lookup per thesaurus (cold or warm cache), compared with the model.
func thesLight(r *oracle.Report, tag string, s segment.Segment, m *model.Seg, rng *rand.Rand) {
	ts, ok := s.(segment.ThesaurusSegment)
	if !ok {
		return
	}
	for name, th := range m.Thes {
		t, err := ts.Thesaurus(name)
		if err != nil || t == nil {
			r.Fail("thes-err", "%s: Thesaurus(%q): %v", tag, name, err)
			continue
		}
		terms := m.ThesTerms(name)
		if len(terms) == 0 {
			continue
		}
		term := terms[rng.Intn(len(terms))]
		l, err := t.SynonymsList([]byte(term), nil, nil)
		if err != nil || l == nil {
			r.Fail("thes-list-err", "%s: SynonymsList(%q): %v", tag, term, err)
			continue
		}
		it := l.Iterator(nil)
		n := 0
		for {
			sy, err := it.Next()
			if err != nil {
				r.Fail("thes-next-err", "%s: thesaurus %q term %q: %v", tag, name, term, err)
				break
			}
			if sy == nil {
				break
			}
			n++
		}
		if n != len(th[term]) {
			r.Fail("thes-missing", "%s: thesaurus %q term %q: %d pairs, want %d", tag, name, term, n, len(th[term]))
		}
	}
}

// c20failedOpens: an Open that fails must not keep the mapping or the
// descriptor it acquired (it never hands out a reference). The files are
// well formed up to the point named; the pinned reader rejects them with an
// error.
func c20failedOpens(c *Ctx) {
	be64 := func(b []byte, v uint64) []byte {
		return append(b, byte(v>>56), byte(v>>48), byte(v>>40), byte(v>>32), byte(v>>24), byte(v>>16), byte(v>>8), byte(v))
	}
	be32 := func(b []byte, v uint32) []byte { return append(b, byte(v>>24), byte(v>>16), byte(v>>8), byte(v)) }
	legacy := func(dv []byte) []byte {
		var buf []byte
		buf = append(buf, 0x00, 0x01, 'a') // field record: dictLoc 0, name "a"
		dvOff := uint64(len(buf))
		buf = append(buf, dv...) // doc-value index
		fieldsIdx := uint64(len(buf))
		buf = be64(buf, 0)         // fields index: address of field record 0
		buf = be64(buf, 1)         // numDocs
		buf = be64(buf, 0)         // stored index offset
		buf = be64(buf, fieldsIdx) // fields index offset
		buf = be64(buf, dvOff)     // doc value offset
		buf = be32(buf, 1024)      // chunk mode
		buf = be32(buf, 15)        // version: pre-sections layout
		buf = be32(buf, 0)         // crc (not checked on open)
		return buf
	}
	ff := []byte{0xff, 0xff, 0xff, 0xff, 0xff, 0xff, 0xff, 0xff, 0xff, 0xff}
	files := map[string][]byte{
		"legacy-dv-start-overlong":  legacy(ff),
		"legacy-dv-end-overlong":    legacy(append([]byte{0x05}, ff...)),
		"legacy-dv-range-too-small": legacy([]byte{0x03, 0x05}),
	}
	for name, data := range files {
		id := "failed-open-" + name
		if !c.Case(id, map[string]interface{}{"file": name, "bytes": len(data)}) {
			continue
		}
		path := c.Scratch.Path("c20bad-" + name)
		os.WriteFile(path, data, 0600)
		guard(c.R, id, func() {
			for k := 0; k < 3; k++ {
				s, err := zx.Open(path)
				if err == nil {
					// the reader accepted it: then it is an ordinary segment, close it
					s.Close()
					c.R.Inc("failed_open_files_accepted", 1)
					break
				}
				c.R.Inc("failed_opens", 1)
			}
		})
		if mp, fd := procState(path); mp || fd != 0 {
			c.R.Fail("failed-open-leak", "%s: after failed Opens: mapped=%v fds=%d", id, mp, fd)
		}
		os.Remove(path)
		c.End()
	}
}

// c20manyHolders: more holders than fit in 16 bits. The segment stays mapped and
// readable until the last of them lets go, and is released exactly then.
func c20manyHolders(c *Ctx, m *model.Seg, data []byte, rng *rand.Rand) {
	if !c.Case("many-holders", map[string]interface{}{"holders": 65600}) {
		return
	}
	defer c.End()
	path := c.Scratch.Path("c20-many")
	if err := os.WriteFile(path, data, 0600); err != nil {
		c.R.Fail("harness", "%v", err)
		return
	}
	defer os.Remove(path)
	guard(c.R, "many-holders", func() {
		seg, err := zx.Open(path)
		if err != nil {
			c.R.Fail("open-err", "many-holders: %v", err)
			return
		}
		const extra = 65600
		for k := 0; k < extra; k++ {
			seg.AddRef()
		}
		sampleRead(c.R, "many-holders after the AddRefs", seg, m, rng)
		for k := 0; k < extra; k++ {
			if err := seg.DecRef(); err != nil {
				c.R.Fail("release-error", "many-holders: DecRef %d of %d (holders left: %d) returned %v", k+1, extra, extra-k, err)
				return
			}
			if k == 0 || k == 63 || k == 64 || k == 65 || k == extra-2 || k == extra-1 {
				if mp, fd := procState(path); !mp || fd != 1 {
					c.R.Fail("released-early", "many-holders: after DecRef %d of %d (holders left: %d) mapped=%v fds=%d", k+1, extra, extra-k, mp, fd)
					return
				}
				c.R.Inc("proc_inspections", 1)
			}
		}
		sampleRead(c.R, "many-holders before the last release", seg, m, rng)
		if err := seg.Close(); err != nil {
			c.R.Fail("release-error", "many-holders: the final Close returned %v", err)
		}
		if mp, fd := procState(path); mp || fd != 0 {
			c.R.Fail("not-released", "many-holders: after the final release mapped=%v fds=%d", mp, fd)
		}
		c.R.Inc("many_holder_sequences", 1)
	})
	c.DistinctN(1)
}
