package main

import (
	"fmt"
	"math/rand"
	"os"

	"github.com/RoaringBitmap/roaring/v2"
	segment "github.com/blevesearch/scorch_segment_api/v2"

	"verif/harness/model"
	"verif/harness/oracle"
	"verif/harness/zx"
)

func init() { workloads["C07"] = c07 }

// optIter is what bleve's optimiser uses.
type optIter interface {
	ActualBitmap() *roaring.Bitmap
	DocNum1Hit() (uint64, bool)
	ReplaceActual(*roaring.Bitmap)
}

// c07Batch: N documents; in field "f" (term vectors) and "g" (no term
// vectors, frequency 1) the term "t" occurs exactly in the documents of P,
// with pairwise distinct payloads so that a mix-up between hits is visible.
func c07Batch(n int, p uint32) *model.Batch {
	b := &model.Batch{}
	for d := 0; d < n; d++ {
		doc := model.Doc{ID: fmt.Sprintf("e%d", d), IDLast: d%2 == 0}
		f := model.FieldInst{Name: "f", Type: 't', TV: true, Len: 10 + d}
		g := model.FieldInst{Name: "g", Type: 't', Len: 3 + d}
		if p&(1<<uint(d)) != 0 {
			tok := model.Tok{Term: "t", Freq: d%3 + 1}
			for l := 0; l < tok.Freq; l++ {
				loc := model.Loc{Pos: uint64(100*d + l + 1), Start: uint64(7*d + l), End: uint64(7*d + l + 3)}
				if d%2 == 1 {
					loc.AP = []uint64{uint64(d), uint64(l)}
				}
				tok.Locs = append(tok.Locs, loc)
			}
			f.Toks = append(f.Toks, tok)
			g.Toks = append(g.Toks, model.Tok{Term: "t", Freq: 1})
		}
		// another term so that every document has postings around "t"
		f.Toks = append(f.Toks, model.Tok{Term: "o", Freq: 2, Locs: []model.Loc{{Pos: 1, Start: 0, End: 1}, {Pos: 2, Start: 2, End: 3}}})
		if d%2 == 0 {
			g.Toks = append(g.Toks, model.Tok{Term: "o", Freq: 1})
		}
		doc.Fields = []model.FieldInst{f, g}
		b.Docs = append(b.Docs, doc)
	}
	return b
}

type c07seg struct {
	name string
	seg  segment.Segment
}

// paths enumerates every complete call path over hits (sorted doc numbers)
// in a segment of n documents: each op is -1 (Next) or x>=0 (Advance(x),
// x strictly beyond the last returned document, up to n).  A path ends with
// the first call that returns nil.
func enumPaths(hits []int, n int, visit func(ops []int)) {
	var ops []int
	var rec func(last int)
	next := func(from int) int { // first hit >= from, or -1
		for _, h := range hits {
			if h >= from {
				return h
			}
		}
		return -1
	}
	rec = func(last int) {
		// Next
		ops = append(ops, -1)
		if r := next(last + 1); r < 0 {
			visit(ops)
		} else {
			rec(r)
		}
		ops = ops[:len(ops)-1]
		for x := last + 1; x <= n; x++ {
			ops = append(ops, x)
			if r := next(x); r < 0 {
				visit(ops)
			} else {
				rec(r)
			}
			ops = ops[:len(ops)-1]
		}
	}
	rec(-1)
}

func maskDocs(mask uint32, n int) []int {
	var out []int
	for d := 0; d < n; d++ {
		if mask&(1<<uint(d)) != 0 {
			out = append(out, d)
		}
	}
	return out
}

var c07flags = [][3]bool{{false, false, false}, {true, true, false}, {true, true, true}, {false, false, true}, {true, false, false}}

func c07(c *Ctx) {
	maxN := c.N(6, 7)
	idx := 0
	c.exh = true
	for n := 1; n <= maxN; n++ {
		chunks := []uint32{1, 2, 3, uint32(n)}
		seen := map[uint32]bool{}
		for _, ch := range chunks {
			if seen[ch] || ch > uint32(n) && ch != uint32(n) {
				continue
			}
			seen[ch] = true
			for p := uint32(1); p < 1<<uint(n); p++ {
				idx++
				if !c.Mine(idx) {
					continue
				}
				c07case(c, n, p, ch)
			}
		}
	}
	c07random(c)
}

func c07case(c *Ctx, n int, p uint32, chunk uint32) {
	id := fmt.Sprintf("N%d-P%02x-c%d", n, p, chunk)
	if !c.Case(id, map[string]interface{}{"N": n, "P": maskDocs(p, n), "chunk": chunk}) {
		return
	}
	defer c.End()
	b := c07Batch(n, p)
	m := model.Build(b)
	zx.SetChunkMode(chunk)
	var variants []c07seg
	defer func() {
		for _, v := range variants {
			v.seg.Close()
		}
	}()
	ok := true
	guard(c.R, id+" setup", func() {
		sb, _, err := zx.Build(b)
		if err != nil {
			c.R.Fail("build-err", "%s: %v", id, err)
			ok = false
			return
		}
		variants = append(variants, c07seg{"built-mem", sb})
		pp := c.Scratch.Path("c07")
		defer os.Remove(pp)
		if err := zx.Persist(sb, pp); err != nil {
			c.R.Fail("persist-err", "%s: %v", id, err)
			ok = false
			return
		}
		so, err := zx.Open(pp)
		if err != nil {
			c.R.Fail("open-err", "%s: %v", id, err)
			ok = false
			return
		}
		variants = append(variants, c07seg{"built-mmap", so})
		mp := c.Scratch.Path("c07m")
		defer os.Remove(mp)
		if _, _, err := zx.Merge(segs(so), zx.Drops([]map[uint32]bool{nil}, nil), mp, nil, nil); err != nil {
			c.R.Fail("merge-err", "%s: %v", id, err)
			ok = false
			return
		}
		sm, err := zx.Open(mp)
		if err != nil {
			c.R.Fail("open-err", "%s: merged: %v", id, err)
			ok = false
			return
		}
		variants = append(variants, c07seg{"merged-mmap", sm})
	})
	if !ok {
		return
	}
	pdocs := maskDocs(p, n)
	var walks, tuples int64
	// recycled objects travel across every request of this case
	var rePL segment.PostingsList
	var reIt segment.PostingsIterator
	turn := 0
	for _, v := range variants {
		for _, field := range []string{"f", "g"} {
			hitsModel := m.Post[field]["t"]
			byDoc := map[int]*model.Hit{}
			for i := range hitsModel {
				byDoc[int(hitsModel[i].Doc)] = &hitsModel[i]
			}
			dict, err := v.seg.Dictionary(field)
			if err != nil {
				c.R.Fail("dict-err", "%s %s: %v", id, v.name, err)
				return
			}
			oneHit := v.name == "merged-mmap" && field == "g" && len(pdocs) == 1
			for e := uint32(0); e < 1<<uint(n); e++ {
				var ex *roaring.Bitmap
				if e != 0 || turn%2 == 0 { // e==0 alternates between nil and an empty bitmap
					ex = roaring.New()
					for _, d := range maskDocs(e, n) {
						ex.Add(uint32(d))
					}
				}
				h := maskDocs(p&^e, n)
				for _, fl := range c07flags {
					tuples++
					where := fmt.Sprintf("%s %s/%s E=%v flags=%v", id, v.name, field, maskDocs(e, n), fl)
					first := true
					if tuples%3 == 0 {
						// a term that is not there, looked up with the recycled objects: empty in
						// every respect, and whatever it hands out is recycled by the next request
						guard(c.R, where+" (absent term)", func() {
							var prePL segment.PostingsList
							var preIt segment.PostingsIterator
							if tuples%2 == 0 {
								prePL, preIt = rePL, reIt
							}
							apl, err := dict.PostingsList([]byte("zz-absent"), ex, prePL)
							if err != nil || apl == nil {
								c.R.Fail("pl-err", "%s: absent term: %v", where, err)
								return
							}
							if apl.Count() != 0 {
								c.R.Fail("count", "%s: absent term: Count %d", where, apl.Count())
							}
							ait := apl.Iterator(fl[0], fl[1], fl[2], preIt)
							if oi, ok := ait.(optIter); ok {
								if d1, is1 := oi.DocNum1Hit(); is1 {
									c.R.Fail("docnum1hit", "%s: absent term: DocNum1Hit %d", where, d1)
								}
								if abm := oi.ActualBitmap(); abm != nil && !abm.IsEmpty() {
									c.R.Fail("actualbitmap", "%s: absent term: ActualBitmap %v", where, abm.ToArray())
								}
							}
							var po segment.Posting
							if tuples%4 == 0 {
								po, err = ait.Advance(0)
							} else {
								po, err = ait.Next()
							}
							if err != nil || po != nil {
								c.R.Fail("iter-extra", "%s: absent term yields %v, %v", where, po, err)
							}
							rePL, reIt = apl, ait
							c.R.Inc("c07_absent_term_requests", 1)
						})
					}
					guard(c.R, where, func() {
						enumPaths(h, n, func(ops []int) {
							turn++
							var prePL segment.PostingsList
							var preIt segment.PostingsIterator
							if turn%3 != 0 {
								prePL, preIt = rePL, reIt // recycled from whatever request came before
							}
							pl, err := dict.PostingsList([]byte("t"), ex, prePL)
							if err != nil || pl == nil {
								c.R.Fail("pl-err", "%s: %v", where, err)
								return
							}
							rePL = pl
							if first && pl.Count() != uint64(len(h)) {
								c.R.Fail("count", "%s: Count %d, want %d", where, pl.Count(), len(h))
							}
							it := pl.Iterator(fl[0], fl[1], fl[2], preIt)
							reIt = it
							if first {
								first = false
								if oi, ok := it.(optIter); ok {
									d1, is1 := oi.DocNum1Hit()
									abm := oi.ActualBitmap()
									switch {
									case is1:
										if len(h) != 1 || int(d1) != h[0] {
											c.R.Fail("docnum1hit", "%s: DocNum1Hit %d, hits %v", where, d1, h)
										}
										c.R.Inc("c07_docnum1hit_seen", 1)
									case abm == nil:
										if len(h) != 0 {
											c.R.Fail("actualbitmap-nil", "%s: ActualBitmap nil and no 1-hit, hits %v", where, h)
										}
									default:
										got := abm.ToArray()
										if len(got) != len(h) {
											c.R.Fail("actualbitmap", "%s: ActualBitmap %v, want %v", where, got, h)
										} else {
											for i := range got {
												if int(got[i]) != h[i] {
													c.R.Fail("actualbitmap", "%s: ActualBitmap %v, want %v", where, got, h)
													break
												}
											}
										}
									}
								} else if len(h) > 0 {
									c.R.Fail("opt-iface", "%s: iterator %T lacks the optimiser interface", where, it)
								}
							}
							walks++
							last := -1
							for si, op := range ops {
								var po segment.Posting
								var err error
								want := -1
								if op < 0 {
									po, err = it.Next()
									for _, d := range h {
										if d > last {
											want = d
											break
										}
									}
								} else {
									po, err = it.Advance(uint64(op))
									for _, d := range h {
										if d >= op {
											want = d
											break
										}
									}
								}
								if err != nil {
									c.R.Fail("iter-err", "%s path %v step %d: %v", where, ops, si, err)
									return
								}
								if want < 0 {
									if po != nil {
										c.R.Fail("iter-extra", "%s path %v step %d: got doc %d, want nil", where, ops, si, po.Number())
									}
									// one more call after exhaustion
									if po2, err := it.Next(); err != nil || po2 != nil {
										c.R.Fail("iter-after-end", "%s path %v: call after exhaustion returned %v, %v", where, ops, po2, err)
									}
									return
								}
								if po == nil {
									c.R.Fail("iter-missing", "%s path %v step %d: got nil, want doc %d", where, ops, si, want)
									return
								}
								if !oracle.CompareHit(c.R, fmt.Sprintf("%s path %v step %d", where, ops, si), po, byDoc[want], fl[0] || fl[1] || fl[2], fl[2]) {
									return
								}
								last = want
							}
						})
					})
					if c.R.Failed() {
						return
					}
				}
				// ReplaceActual: every subset of the actual hits, on a fresh general iterator
				if n <= 5 && !oneHit && len(h) > 0 {
					hm := uint32(0)
					for _, d := range h {
						hm |= 1 << uint(d)
					}
					for s := hm; ; s = (s - 1) & hm {
						sub := maskDocs(s, n)
						where := fmt.Sprintf("%s %s/%s E=%v ReplaceActual(%v)", id, v.name, field, maskDocs(e, n), sub)
						exs := []*roaring.Bitmap{ex}
						if e == 0 {
							exs = []*roaring.Bitmap{nil, roaring.New()} // no exclusion, said both ways
						}
						for xi, exv := range exs {
							exv := exv
							fl := c07flags[(int(s)+xi)%len(c07flags)]
							if !(fl[0] || fl[1] || fl[2]) || s%3 == 0 {
								fl = [3]bool{true, true, true}
							}
							guard(c.R, where, func() {
								pl, err := dict.PostingsList([]byte("t"), exv, nil)
								if err != nil {
									c.R.Fail("pl-err", "%s: %v", where, err)
									return
								}
								it := pl.Iterator(fl[0], fl[1], fl[2], nil)
								oi, ok := it.(optIter)
								if !ok {
									return
								}
								bm := roaring.New()
								for _, d := range sub {
									bm.Add(uint32(d))
								}
								oi.ReplaceActual(bm)
								adv := s%2 == 1 && len(sub) > 1
								for k, d := range sub {
									var po segment.Posting
									var err error
									if adv && k == len(sub)-1 {
										po, err = it.Advance(uint64(d))
									} else {
										po, err = it.Next()
									}
									if err != nil || po == nil {
										c.R.Fail("replace-missing", "%s: step %d: %v %v, want doc %d", where, k, po, err, d)
										return
									}
									if !oracle.CompareHit(c.R, where, po, byDoc[d], fl[0] || fl[1] || fl[2], fl[2]) {
										return
									}
								}
								if po, err := it.Next(); err != nil || po != nil {
									c.R.Fail("replace-extra", "%s: after the subset: %v %v", where, po, err)
								}
								c.R.Inc("c07_replace_actual_subsets", 1)
								if exv == nil {
									c.R.Inc("c07_replace_actual_without_exclusion", 1)
								}
							})
						}
						if s == 0 {
							break
						}
					}
				}
			}
			if oneHit {
				c.R.Inc("c07_single_hit_lists", 1)
			}
		}
		c.R.Inc("c07_segments_"+v.name, 1)
	}
	c.AddEvals(walks)
	c.DistinctN(tuples)
	c.R.Inc("c07_walks", walks)
	c.R.Inc("c07_tuples_P_E_chunk_flags_field_variant", tuples)
	c.Sample(map[string]interface{}{"case": id, "N": n, "P": pdocs, "chunk": chunk, "walks": walks})
}

// c07random: larger instances in modes 1025/1026 with random call sequences
// and preallocation-reuse histories across segments, fields, terms, E, flags.
func c07random(c *Ctx) {
	rounds := c.N(64, 1600)
	for i := 0; i < rounds; i++ {
		if !c.Mine(i) {
			continue
		}
		rng := c.Rng(1000000 + i)
		id := fmt.Sprintf("R%d", i)
		nsegs := 2
		var bs []*model.Batch
		var modes []uint32
		desc := []string{}
		for s := 0; s < nsegs; s++ {
			cl := "mid"
			o := model.GenOpts{NoBig: true, IDPrefix: fmt.Sprintf("r%d-", s)}
			if (i+s)%4 == 0 {
				cl = "tall"
			}
			b := model.Gen(rng, cl, o)
			md := []uint32{1025, 1026, 1026, 3, 1024}[rng.Intn(5)]
			if cl == "tall" {
				k := model.EdgeCards[rng.Intn(len(model.EdgeCards))]
				model.ForceCardinality(b, rng, firstFieldName(b), "edge", k)
			}
			bs = append(bs, b)
			modes = append(modes, md)
			desc = append(desc, fmt.Sprintf("%s/%d docs/mode %d", cl, len(b.Docs), md))
		}
		if !c.Case(id, map[string]interface{}{"segments": desc}) {
			continue
		}
		guard(c.R, id, func() { c07randomCase(c, id, rng, bs, modes) })
		c.End()
	}
}

func c07randomCase(c *Ctx, id string, rng *rand.Rand, bs []*model.Batch, modes []uint32) {
	type tgt struct {
		seg segment.Segment
		m   *model.Seg
	}
	var ts []tgt
	defer func() {
		for _, t := range ts {
			t.seg.Close()
		}
	}()
	for k, b := range bs {
		zx.SetChunkMode(modes[k])
		s, _, err := zx.Build(b)
		if err != nil {
			c.R.Fail("build-err", "%s: %v", id, err)
			return
		}
		m := model.Build(b)
		if k%2 == 1 {
			p := c.Scratch.Path("c07r")
			if err := zx.Persist(s, p); err != nil {
				c.R.Fail("persist-err", "%s: %v", id, err)
				return
			}
			o, err := zx.Open(p)
			os.Remove(p)
			if err != nil {
				c.R.Fail("open-err", "%s: %v", id, err)
				return
			}
			s.Close()
			s = o
		}
		ts = append(ts, tgt{s, m})
	}
	// merged of both (single-hit entries, re-encoded details)
	{
		zx.SetChunkMode([]uint32{1025, 1026}[rng.Intn(2)])
		drops := []map[uint32]bool{randDrops(rng, ts[0].m.NumDocs, 3), randDrops(rng, ts[1].m.NumDocs, 3)}
		mm, _ := model.Merge([]*model.Seg{ts[0].m, ts[1].m}, drops)
		p := c.Scratch.Path("c07rm")
		if _, _, err := zx.Merge(segs(ts[0].seg, ts[1].seg), zx.Drops(drops, nil), p, nil, nil); err != nil {
			c.R.Fail("merge-err", "%s: %v", id, err)
			return
		}
		o, err := zx.Open(p)
		os.Remove(p)
		if err != nil {
			c.R.Fail("open-err", "%s: %v", id, err)
			return
		}
		ts = append(ts, tgt{o, mm})
	}
	// a twin of the first segment: same ids, same stored data, same dictionaries, but
	// the hits of every term differ from the term's second document on. The detail
	// streams of a term start at the same file offset in both segments; objects that
	// served a term of one are then recycled for the same term of the other
	guard(c.R, id+" twin", func() { c07twin(c, id, rng, bs[0], ts[0].seg, ts[0].m, modes[0]) })
	pls := make([]segment.PostingsList, 3)
	its := make([]segment.PostingsIterator, 3)
	var susp *c07suspended
	lastLive := make([][]*model.Hit, 3)
	lastWhere := make([]string, 3)
	reqs := c.N(300, 600)
	for q := 0; q < reqs; q++ {
		t := ts[rng.Intn(len(ts))]
		if len(t.m.Fields) == 0 {
			continue
		}
		field := t.m.Fields[rng.Intn(len(t.m.Fields))]
		terms := t.m.Terms(field)
		term := "absent-term"
		if len(terms) > 0 && rng.Intn(8) != 0 {
			term = terms[rng.Intn(len(terms))]
		}
		hits := t.m.Post[field][term]
		var ex *roaring.Bitmap
		exset := map[uint64]bool{}
		switch rng.Intn(4) {
		case 0:
		case 1:
			ex = roaring.New()
		default:
			ex = roaring.New()
			dens := 1 + rng.Intn(6)
			for _, h := range hits {
				if rng.Intn(dens) == 0 {
					ex.Add(uint32(h.Doc))
					exset[h.Doc] = true
				}
			}
			for k := 0; k < 3; k++ {
				if t.m.NumDocs > 0 {
					d := uint64(rng.Int63n(int64(t.m.NumDocs)))
					ex.Add(uint32(d))
					exset[d] = true
				}
			}
		}
		var live []*model.Hit
		for k := range hits {
			if !exset[hits[k].Doc] {
				live = append(live, &hits[k])
			}
		}
		fl := c07flags[rng.Intn(len(c07flags))]
		slot := rng.Intn(3)
		where := fmt.Sprintf("%s req %d field %q term %s flags %v |P|=%d |E|=%d slot %d", id, q, field, shortS(term), fl, len(hits), len(exset), slot)
		dict, err := t.seg.Dictionary(field)
		if err != nil {
			c.R.Fail("dict-err", "%s: %v", where, err)
			return
		}
		// every fourth request gets a new list object while the iterator of the slot's
		// earlier list is still handed in as preallocation: the earlier list stays alive
		// and must stay what it was
		preList := pls[slot]
		var earlier segment.PostingsList
		if q%4 == 3 && preList != nil && its[slot] != nil && lastLive[slot] != nil {
			earlier, preList = preList, nil
		}
		pl, err := dict.PostingsList([]byte(term), ex, preList)
		if err != nil || pl == nil {
			c.R.Fail("pl-err", "%s: %v", where, err)
			return
		}
		pls[slot] = pl
		if pl.Count() != uint64(len(live)) {
			c.R.Fail("count", "%s: Count %d, want %d", where, pl.Count(), len(live))
		}
		it := pl.Iterator(fl[0], fl[1], fl[2], its[slot])
		its[slot] = it
		c.R.Inc("c07_reuse_requests", 1)
		if earlier != nil {
			want := lastLive[slot]
			if earlier.Count() != uint64(len(want)) {
				c.R.Fail("earlier-list-changed", "%s: the list whose iterator was recycled (%s) now has Count %d, had %d", where, lastWhere[slot], earlier.Count(), len(want))
			} else {
				eit := earlier.Iterator(false, false, false, nil)
				for k := range want {
					po, err := eit.Next()
					if err != nil || po == nil || po.Number() != want[k].Doc {
						c.R.Fail("earlier-list-changed", "%s: the list whose iterator was recycled (%s) yields %v, %v as hit %d, want doc %d", where, lastWhere[slot], po, err, k, want[k].Doc)
						break
					}
				}
			}
			c.R.Inc("c07_earlier_lists_rechecked", 1)
		}
		lastLive[slot], lastWhere[slot] = live, where
		if oi, ok := it.(optIter); ok && len(live) == 0 {
			if d1, is1 := oi.DocNum1Hit(); is1 {
				c.R.Fail("docnum1hit", "%s: no live hit but DocNum1Hit %d", where, d1)
			}
			if abm := oi.ActualBitmap(); abm != nil && !abm.IsEmpty() {
				c.R.Fail("actualbitmap", "%s: no live hit but ActualBitmap %v", where, abm.ToArray())
			}
		}
		// random walk; some walks are abandoned half-way (the objects are recycled
		// by a later request in whatever state they were left)
		abandonAfter := -1
		if rng.Intn(4) == 0 {
			abandonAfter = rng.Intn(3)
		}
		// a walk that was suspended by an earlier request (another slot) is resumed now,
		// after this request's objects were (re)initialised: iterators that are alive at
		// the same time do not disturb each other
		if susp != nil && susp.slot != slot {
			for k := susp.pos; k < len(susp.live); k++ {
				po, err := susp.it.Next()
				if err != nil || po == nil {
					c.R.Fail("iter-missing", "%s (resumed after %s): hit %d: %v, %v", susp.where, where, k, po, err)
					return
				}
				if !oracle.CompareHit(c.R, susp.where+" (resumed after another request)", po, susp.live[k], susp.fl[0] || susp.fl[1] || susp.fl[2], susp.fl[2]) {
					return
				}
			}
			if po, err := susp.it.Next(); err != nil || po != nil {
				c.R.Fail("iter-extra", "%s (resumed): after the last hit: %v, %v", susp.where, po, err)
				return
			}
			c.R.Inc("c07_walks_resumed_after_another_request", 1)
			susp = nil
		}
		suspendAfter := -1
		if susp == nil && abandonAfter < 0 && len(live) >= 2 && rng.Intn(3) == 0 {
			suspendAfter = 1 + rng.Intn(len(live)-1)
		}
		pos := 0 // index into live of the next candidate
		lastDoc := int64(-1)
		for step := 0; ; step++ {
			if step == abandonAfter {
				c.R.Inc("c07_walks_abandoned", 1)
				break
			}
			if suspendAfter >= 0 && pos >= suspendAfter && pos < len(live) {
				susp = &c07suspended{it: it, live: live, pos: pos, fl: fl, slot: slot, where: where}
				its[slot], pls[slot] = nil, nil // neither the suspended iterator nor its list is recycled meanwhile
				break
			}
			var po segment.Posting
			var err error
			wantIdx := -1
			if rng.Intn(3) == 0 || t.m.NumDocs == 0 {
				po, err = it.Next()
				if pos < len(live) {
					wantIdx = pos
				}
			} else {
				span := int64(t.m.NumDocs) - lastDoc
				x := lastDoc + 1 + rng.Int63n(span+1)
				if rng.Intn(2) == 0 && pos < len(live) {
					// a target near the next hits
					k := pos + rng.Intn(4)
					if k < len(live) {
						x = int64(live[k].Doc) - int64(rng.Intn(2))
						if x <= lastDoc {
							x = lastDoc + 1
						}
					}
				}
				po, err = it.Advance(uint64(x))
				for k := pos; k < len(live); k++ {
					if int64(live[k].Doc) >= x {
						wantIdx = k
						break
					}
				}
			}
			if err != nil {
				c.R.Fail("iter-err", "%s: %v", where, err)
				return
			}
			c.R.Inc("c07_random_steps", 1)
			if wantIdx < 0 {
				if po != nil {
					c.R.Fail("iter-extra", "%s: got doc %d after the last hit", where, po.Number())
					return
				}
				if po2, err := it.Next(); err != nil || po2 != nil {
					c.R.Fail("iter-after-end", "%s: call after exhaustion returned %v, %v", where, po2, err)
					return
				}
				break
			}
			if po == nil {
				c.R.Fail("iter-missing", "%s: got nil, want doc %d", where, live[wantIdx].Doc)
				return
			}
			if !oracle.CompareHit(c.R, where, po, live[wantIdx], fl[0] || fl[1] || fl[2], fl[2]) {
				return
			}
			lastDoc = int64(live[wantIdx].Doc)
			pos = wantIdx + 1
		}
		if len(hits) > 1024 {
			c.R.Inc("c07_random_lists_card_gt_1024", 1)
		}
	}
	c.Distinct(bs[0].Fingerprint() ^ bs[1].Fingerprint()<<1)
}

func shortS(s string) string {
	if len(s) > 20 {
		return fmt.Sprintf("%q…", s[:20])
	}
	return fmt.Sprintf("%q", s)
}

func c07twin(c *Ctx, id string, rng *rand.Rand, b *model.Batch, segA segment.Segment, mA *model.Seg, mode uint32) {
	tb := b.Clone()
	seen := map[string]bool{}
	for di := range tb.Docs {
		for fi := range tb.Docs[di].Fields {
			f := &tb.Docs[di].Fields[fi]
			for ti := range f.Toks {
				key := f.Name + "\x00" + f.Toks[ti].Term
				if !seen[key] {
					seen[key] = true // the first document of the term stays as it is
					continue
				}
				if f.Toks[ti].Freq > 0 {
					f.Toks[ti].Freq += 2
					if len(f.Toks[ti].Locs) > 0 {
						l := f.Toks[ti].Locs[len(f.Toks[ti].Locs)-1]
						l.Pos, l.Start, l.End = l.Pos+1, l.End+1, l.End+3
						l2 := l
						l2.Pos, l2.Start, l2.End = l.Pos+1, l.End+1, l.End+2
						f.Toks[ti].Locs = append(f.Toks[ti].Locs, l, l2)
					}
				}
			}
		}
		tb.Docs[di].Composite = nil
	}
	for di := range b.Docs {
		if len(b.Docs[di].Composite) > 0 {
			return // composite fields repeat the tokens of their sources: no twin for such batches
		}
	}
	zx.SetChunkMode(mode)
	segB, _, err := zx.Build(tb)
	if err != nil {
		c.R.Fail("build-err", "%s: twin: %v", id, err)
		return
	}
	defer segB.Close()
	mB := model.Build(tb)
	type side struct {
		seg segment.Segment
		m   *model.Seg
	}
	sides := []side{{segA, mA}, {segB, mB}}
	var pl segment.PostingsList
	var it segment.PostingsIterator
	n := 0
	for _, f := range mA.Fields {
		for _, term := range mA.Terms(f) {
			if len(mA.Post[f][term]) < 2 || n >= 40 {
				continue
			}
			n++
			for turn := 0; turn < 3; turn++ {
				sd := sides[turn%2]
				hits := sd.m.Post[f][term]
				dict, err := sd.seg.Dictionary(f)
				if err != nil {
					c.R.Fail("dict-err", "%s: twin: %v", id, err)
					return
				}
				pl, err = dict.PostingsList([]byte(term), nil, pl)
				if err != nil || pl == nil {
					c.R.Fail("pl-err", "%s: twin: %v", id, err)
					return
				}
				it = pl.Iterator(true, true, true, it)
				where := fmt.Sprintf("%s twin side %d field %q term %s (objects recycled from the other side)", id, turn%2, f, shortS(term))
				for k := range hits {
					po, err := it.Next()
					if err != nil || po == nil {
						c.R.Fail("iter-missing", "%s: hit %d: %v, %v", where, k, po, err)
						return
					}
					if !oracle.CompareHit(c.R, where, po, &hits[k], true, true) {
						return
					}
				}
				if po, err := it.Next(); err != nil || po != nil {
					c.R.Fail("iter-extra", "%s: after the last hit: %v, %v", where, po, err)
					return
				}
				c.R.Inc("c07_twin_requests", 1)
			}
		}
	}
}

// c07suspended is a walk of the random part that was interrupted half-way.
type c07suspended struct {
	it    segment.PostingsIterator
	live  []*model.Hit
	pos   int
	fl    [3]bool
	slot  int
	where string
}
