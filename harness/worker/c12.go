package main

import (
	"fmt"
	"os"

	"verif/harness/model"
	"verif/harness/oracle"
	"verif/harness/zx"
)

func init() { workloads["C12"] = c12 }

// C12 — thesaurus lookups return exactly the defined synonyms.
func c12(c *Ctx) {
	n := c.N(2000, 120000)
	for i := 0; i < n; i++ {
		if !c.Mine(i) {
			continue
		}
		rng := c.Rng(i)
		class := []string{"small", "one", "mid", "empty", "deep", "small"}[i%6]
		mode := modeFor(i, rng)
		b := model.Gen(rng, class, model.GenOpts{Syn: true, Vec: VecBuild && rng.Intn(3) == 0, NoBig: true})
		if i%40 == 39 {
			// a term with very many synonyms
			n := []int{1024, 1023, 1025, 2048, 4096, 4097, 512}[(i/40)%7]
			model.AddBigSynonymDoc(b, fmt.Sprintf("bigsyn%d", i), model.ThesPool[(i/40)%2], "big", n)
			c.R.Inc("batches_with_a_big_synonym_list", 1)
		}
		fp := b.Fingerprint()
		id := fmt.Sprintf("s%d", i)
		m := model.Build(b)
		if !c.Case(id, caseDesc{Class: class, Mode: mode, Docs: len(b.Docs), FP: fpString(fp), Syn: true}) {
			continue
		}
		zx.SetChunkMode(mode)
		guard(c.R, id, func() {
			seg, _, err := zx.Build(b)
			if err != nil {
				c.R.Fail("build-err", "%s: %v", id, err)
				return
			}
			defer seg.Close()
			var excepts [][]uint32
			for k := 0; k < 3; k++ {
				var ex []uint32
				for d := uint64(0); d < m.NumDocs; d++ {
					if rng.Intn(2) == 0 {
						ex = append(ex, uint32(d))
					}
				}
				excepts = append(excepts, ex)
			}
			o := oracle.ThesOpts{UnknownNames: []string{"nothes", ""}, UnknownTerms: []string{"unk", "", "ca"}, Excepts: excepts}
			oracle.CheckThesaurus(c.R, id+"/mem", seg, m, o)
			// synonym fields contribute nothing to the ordinary dictionaries
			oracle.CheckPostings(c.R, id+"/mem", seg, m, oracle.PostOpts{ChunkMode: mode, AbsentTerms: []string{"car", "auto"}, MaxTerms: 6})
			p := c.Scratch.Path("c12")
			defer os.Remove(p)
			if err := zx.Persist(seg, p); err != nil {
				c.R.Fail("persist-err", "%s: %v", id, err)
				return
			}
			op, err := zx.Open(p)
			if err != nil {
				c.R.Fail("open-err", "%s: %v", id, err)
				return
			}
			defer op.Close()
			oracle.CheckThesaurus(c.R, id+"/opened", op, m, o)
			if i%3 == 0 && m.NumDocs > 0 {
				// the re-opened segment merged alone, nothing deleted: same thesauri
				mp := c.Scratch.Path("c12m")
				defer os.Remove(mp)
				if _, _, err := zx.Merge(segs(op), zx.Drops([]map[uint32]bool{nil}, nil), mp, nil, nil); err != nil {
					c.R.Fail("merge-err", "%s: merge of the segment alone: %v", id, err)
					return
				}
				om, err := zx.Open(mp)
				if err != nil {
					c.R.Fail("open-err", "%s: merged: %v", id, err)
					return
				}
				defer om.Close()
				oracle.CheckThesaurus(c.R, id+"/merged-alone", om, m, oracle.ThesOpts{UnknownTerms: []string{"unk"}})
				c.R.Inc("thes_merged_alone", 1)
			}
		})
		multi := 0
		for _, th := range m.Thes {
			for _, hs := range th {
				docs := map[uint32]bool{}
				for _, h := range hs {
					docs[h.Doc] = true
				}
				if len(docs) >= 2 {
					multi++
				}
			}
		}
		c.R.Inc("thes_terms_defined_by_2plus_docs", int64(multi))
		if len(m.Thes) > 0 && m.NumDocs >= 2 {
			c.Distinct(fp)
		}
		var names []string
		for n := range m.Thes {
			names = append(names, n)
		}
		c.Sample(map[string]interface{}{"case": id, "docs": len(b.Docs), "thesauri": names})
		c.End()
	}
}
