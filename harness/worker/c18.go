package main

import (
	"fmt"
	"math/rand"
	"os"
	"runtime"
	"strings"
	"sync"

	segment "github.com/blevesearch/scorch_segment_api/v2"

	"verif/harness/model"
	"verif/harness/oracle"
	"verif/harness/zx"
)

func init() {
	workloads["C18"] = c18
	workloads["C18c"] = c18conc
}

// cancelAt closes ch inside its k-th ReportBytesWritten callback, i.e. at a
// write boundary in the middle of the merge.
type cancelAt struct {
	k      int
	n      int
	bytes  uint64
	atByte uint64
	ch     chan struct{}
	closed bool
}

func (s *cancelAt) ReportBytesWritten(b uint64) {
	s.n++
	s.bytes += b
	if s.n == s.k && !s.closed {
		s.closed = true
		s.atByte = s.bytes
		close(s.ch)
	}
}

type c18plan struct {
	bs    []*model.Batch
	ms    []*model.Seg
	drops []map[uint32]bool
	mm    *model.Seg
	mode  uint32
	desc  map[string]interface{}
	fp    uint64
}

func c18genPlan(rng *rand.Rand, i int) *c18plan {
	p := &c18plan{}
	nl := 1 + rng.Intn(3)
	same := rng.Intn(3) == 0
	names := pick3(rng)
	for l := 0; l < nl; l++ {
		o := model.GenOpts{Syn: rng.Intn(2) == 0, Vec: VecBuild && rng.Intn(2) == 0, NoBig: true, IDPrefix: fmt.Sprintf("x%d-", l), VecSalt: 1 + i%997}
		if same {
			o.Names, o.Syn, o.Vec = names, false, false
		}
		b := model.Gen(rng, []string{"small", "one", "small", "mid"}[rng.Intn(4)], o)
		forceDV(b, rng)
		p.bs = append(p.bs, b)
		p.ms = append(p.ms, model.Build(b))
		p.fp = p.fp*31 + b.Fingerprint()
	}
	for _, m := range p.ms {
		st := 3
		if same && rng.Intn(2) == 0 {
			st = 0
		}
		p.drops = append(p.drops, randDrops(rng, m.NumDocs, st))
	}
	p.mm, _ = model.Merge(p.ms, p.drops)
	p.mode = modeFor(i, rng)
	p.desc = map[string]interface{}{"inputs": nl, "survivors": p.mm.NumDocs, "mode": p.mode, "same_fields": same, "fp": fpString(p.fp)}
	return p
}

func (p *c18plan) build(c *Ctx, id string) ([]segment.Segment, bool) {
	zx.SetChunkMode(p.mode)
	var ins []segment.Segment
	for _, b := range p.bs {
		s, _, err := zx.Build(b)
		if err != nil {
			c.R.Fail("build-err", "%s: %v", id, err)
			return ins, false
		}
		ins = append(ins, s)
	}
	return ins, true
}

// outcome checks the two legal outcomes of a (possibly) cancelled merge.
func c18outcome(c *Ctx, tag string, p *c18plan, path string, err error, rng *rand.Rand) string {
	left := exists(path)
	switch {
	case err == segment.ErrClosed:
		if left {
			c.R.Fail("cancel-file-left", "%s: Merge returned the closed error but left a file of %d bytes", tag, len(readFile(path)))
			return "bad"
		}
		if strings.HasSuffix(path, "/out.zap") {
			if l := listDir(strings.TrimSuffix(path, "/out.zap")); len(l) > 0 {
				c.R.Fail("cancel-file-left", "%s: Merge returned the closed error but left %v in the output directory", tag, l)
				return "bad"
			}
		}
		return "closed"
	case err == nil:
		if !left {
			c.R.Fail("cancel-success-nofile", "%s: Merge reported success but there is no file", tag)
			return "bad"
		}
		before := c.R.Failed()
		data := readFile(path)
		checkFileFooter(c.R, tag, data, p.mm.NumDocs, p.mode)
		guard(c.R, tag, func() {
			o, err := zx.Open(path)
			if err != nil {
				c.R.Fail("cancel-success-unreadable", "%s: Merge reported success but the file does not open: %v", tag, err)
				return
			}
			defer o.Close()
			oracle.CheckPostings(c.R, tag, o, p.mm, oracle.PostOpts{})
			oracle.CheckStored(c.R, tag, o, p.mm, 1)
			oracle.CheckDocValues(c.R, []oracle.DVTarget{{Tag: tag, Seg: o, M: p.mm}}, rng, 1024, nil)
			oracle.CheckThesaurus(c.R, tag, o, p.mm, oracle.ThesOpts{})
			if VecBuild {
				checkVectors(c, tag, o, p.mm, rng)
			}
		})
		if !before && c.R.Failed() {
			return "bad"
		}
		return "complete"
	default:
		c.R.Fail("cancel-other-error", "%s: Merge returned %v (file left: %v); want the closed error or success", tag, err, left)
		return "bad"
	}
}

// C18: the channel is closed before the call and inside every write of the merge.
func c18(c *Ctx) {
	nPlans := c.N(48, 480)
	sweeps := c.N(3, 6) // sections are merged in map order: repeat the sweep
	for i := 0; i < nPlans; i++ {
		if !c.Mine(i) {
			continue
		}
		rng := c.Rng(i)
		p := c18genPlan(rng, i)
		id := fmt.Sprintf("x%d", i)
		if !c.Case(id, p.desc) {
			continue
		}
		func() {
			defer c.End()
			ins, ok := p.build(c, id)
			defer func() {
				for _, s := range ins {
					s.Close()
				}
			}()
			if !ok {
				return
			}
			path, outDir := outPath(c, "c18")
			defer os.RemoveAll(outDir)
			// merge output buffer: with the default of 1 MiB nothing reaches the file before
			// the merge ends; small buffers make a cancelled merge leave flushed data behind it
			zx.SetMergeBuffer([]int{1 << 20, 64, 4096, 1, 1 << 20, 512}[i%6])
			defer zx.SetMergeBuffer(1 << 20)
			bm := zx.Drops(p.drops, nil)
			// uncancelled run: W callbacks
			probe := &cancelAt{k: -1, ch: make(chan struct{})}
			var err error
			guard(c.R, id+" uncancelled", func() { _, _, err = zx.Merge(ins, bm, path, probe.ch, probe) })
			if c18outcome(c, id+" uncancelled", p, path, err, rng) != "complete" {
				if err != nil {
					c.R.Fail("merge-err", "%s: uncancelled Merge: %v", id, err)
				}
				return
			}
			w := probe.n
			total := probe.bytes
			hdr, _ := parseFooter(readFile(path))
			counts := map[string]int64{}
			for sw := 0; sw < sweeps; sw++ {
				for k := 0; k <= w+2; k++ {
					os.Remove(path)
					if (k+sw)%3 == 2 {
						// the destination already exists as an empty file (a reserved name)
						os.WriteFile(path, nil, 0600)
						c.R.Inc("cancels_with_preexisting_empty_destination", 1)
					}
					st := &cancelAt{k: k, ch: make(chan struct{})}
					if k == 0 {
						close(st.ch) // closed before the call
						st.closed = true
					}
					var err error
					tag := fmt.Sprintf("%s sweep %d cancel@write %d/%d", id, sw, k, w)
					guard(c.R, tag, func() { _, _, err = zx.Merge(ins, bm, path, st.ch, st) })
					out := c18outcome(c, tag, p, path, err, rng)
					if k == 0 && out != "closed" && out != "bad" {
						c.R.Fail("cancel-before-ignored", "%s: channel closed before the call but Merge did not return the closed error (%s)", tag, out)
					}
					counts[out]++
					// phase of the cancellation point, by byte position in the output
					switch {
					case k == 0:
						counts["phase_before"]++
					case !st.closed:
						counts["phase_never_reached"]++
					case st.atByte <= hdr.StoredIdx+8*hdr.NumDocs:
						counts["phase_stored"]++
					case st.atByte <= hdr.SectionsIdx:
						counts["phase_sections"]++
					case st.atByte <= total-52:
						counts["phase_fields_index"]++
					default:
						counts["phase_footer"]++
					}
					if out == "bad" {
						break
					}
				}
				if c.R.Failed() {
					break
				}
			}
			if VecBuild {
				// vector phase: the channel is closed inside the j-th engine call
				// (read / reconstruct / factory / train / add / serialise)
				c18engineCancel(c, id, p, ins, bm, path, rng, counts)
			}
			for k, v := range counts {
				c.R.Inc("cancel_"+k, v)
			}
			c.R.Inc("cancellation_points", int64(sweeps*(w+3)))
			c.R.Max("max_writes_per_merge", int64(w))
			c.Distinct(p.fp)
			c.Sample(map[string]interface{}{"case": id, "writes": w, "bytes": total, "outcomes": counts})
		}()
	}
}

// C18 schedule part (race detector): another goroutine closes the channel
// after a seeded number of yields.
func c18conc(c *Ctx) {
	n := c.N(160, 2000)
	for i := 0; i < n; i++ {
		if !c.Mine(i) {
			continue
		}
		rng := c.Rng(i)
		p := c18genPlan(rng, i)
		yields := rng.Intn(400)
		id := fmt.Sprintf("y%d", i)
		p.desc["yields_before_close"] = yields
		if !c.Case(id, p.desc) {
			continue
		}
		func() {
			defer c.End()
			ins, ok := p.build(c, id)
			defer func() {
				for _, s := range ins {
					s.Close()
				}
			}()
			if !ok {
				return
			}
			path := c.Scratch.Path("c18c")
			defer os.Remove(path)
			ch := make(chan struct{})
			var wg sync.WaitGroup
			wg.Add(1)
			go func() {
				defer wg.Done()
				for y := 0; y < yields; y++ {
					runtime.Gosched()
				}
				close(ch)
			}()
			var err error
			guard(c.R, id, func() { _, _, err = zx.Merge(ins, zx.Drops(p.drops, nil), path, ch, nil) })
			wg.Wait()
			out := c18outcome(c, id, p, path, err, rng)
			c.R.Inc("schedule_outcome_"+out, 1)
			c.R.Inc("schedule_rounds", 1)
			c.Distinct(p.fp ^ uint64(yields))
		}()
	}
}
