package main

import (
	"bytes"
	"fmt"
	"os"
	"runtime"
	"runtime/debug"
	"sync"

	segment "github.com/blevesearch/scorch_segment_api/v2"

	"verif/harness/model"
	"verif/harness/oracle"
	"verif/harness/zx"
)

func init() {
	workloads["C01"] = c01
	workloads["C02"] = c02
	workloads["C03"] = c03
	workloads["C04"] = c04
}

// C01 — built segment answers every term query as the batch dictates.
func c01(c *Ctx) {
	n := c.N(3200, 240000)
	tallEvery := c.N(100, 150)
	for i := 0; i < n; i++ {
		if !c.Mine(i) {
			continue
		}
		rng := c.Rng(i)
		class := classFor(i, rng, tallEvery)
		mode := modeFor(i, rng)
		if class == "huge" {
			mode = hugeMode(i)
		}
		if class == "tall" {
			// (fixed sizes between half the document count and 1024 give the same number
			// of chunks as the coder's initial size of 1024, with other boundaries)
			mode = []uint32{1025, 1026, 1024, 64, 1023, 700, 1026, 1000, 1025, 560}[(i/tallEvery)%10]
		}
		if class == "multi" {
			mode = []uint32{1026, 1025}[(i/61)%2]
		}
		b := model.Gen(rng, class, model.GenOpts{Syn: rng.Intn(6) == 0, Vec: VecBuild && rng.Intn(2) == 0, NoBig: true})
		extra := ""
		if class == "tall" {
			// a term whose cardinality sits next to a chunk-rule threshold
			k := model.EdgeCards[(i/tallEvery)%len(model.EdgeCards)]
			f := firstFieldName(b)
			model.ForceCardinality(b, rng, f, "edge", k)
			extra = fmt.Sprintf("term edge in %d docs of field %s", k, f)
		}
		fp := b.Fingerprint()
		id := fmt.Sprintf("b%d", i)
		if !c.Case(id, caseDesc{Class: class, Mode: mode, Docs: len(b.Docs), FP: fpString(fp), Extra: extra}) {
			continue
		}
		m := model.Build(b)
		zx.SetChunkMode(mode)
		guard(c.R, id, func() {
			seg, _, err := zx.Build(b)
			if err != nil {
				c.R.Fail("build-err", "%s: New: %v", id, err)
				return
			}
			defer seg.Close()
			oracle.CheckPostings(c.R, id, seg, m, oracle.PostOpts{ChunkMode: mode, AbsentFields: absentFields, AbsentTerms: absentTerms})
		})
		c.R.Inc("batches_mode_"+modeClass(mode), 1)
		c.R.Inc("batches_class_"+class, 1)
		if nontrivialBatch(m) {
			c.Distinct(fp ^ uint64(mode)<<48)
		}
		c.Sample(map[string]interface{}{"case": id, "class": class, "mode": mode, "docs": len(b.Docs), "fields": m.Fields})
		c.End()
	}
}

func modeClass(m uint32) string {
	switch {
	case m <= 8:
		return "1-8"
	case m < 1024:
		return "9-1023"
	default:
		return fmt.Sprint(m)
	}
}

// C02 — stored fields, ids and id lookup round-trip.
func c02(c *Ctx) {
	installValidator()
	n := c.N(2400, 160000)
	tallEvery := c.N(200, 250)
	for i := 0; i < n; i++ {
		if !c.Mine(i) {
			continue
		}
		rng := c.Rng(i)
		class := classFor(i, rng, tallEvery)
		if i%4 == 1 {
			class = "stored"
		}
		mode := modeFor(i, rng)
		if class == "huge" {
			mode = hugeMode(i)
		}
		b := model.Gen(rng, class, model.GenOpts{Syn: rng.Intn(8) == 0, Vec: VecBuild && rng.Intn(3) == 0})
		if i%80 == 79 {
			// record-header lengths across multiples of 128
			b, class = model.GenMetaSweep(rng, ""), "metasweep"
		}
		fp := b.Fingerprint()
		id := fmt.Sprintf("b%d", i)
		if !c.Case(id, caseDesc{Class: class, Mode: mode, Docs: len(b.Docs), FP: fpString(fp)}) {
			continue
		}
		m := model.Build(b)
		zx.SetChunkMode(mode)
		if class == "metasweep" {
			c.R.Inc("batches_sweeping_record_header_lengths", 1)
		}
		if i%9 == 4 && len(b.Docs) > 0 {
			// a batch the field validator rejects, then the corrected batch (another
			// document order): the retry must show no trace of the rejected one
			rb := &model.Batch{}
			for k := len(b.Docs) - 1; k >= 0; k-- {
				rb.Docs = append(rb.Docs, b.Docs[k])
			}
			d := rng.Intn(len(rb.Docs))
			nd := rb.Docs[d]
			nd.Fields = append(append([]model.FieldInst{}, nd.Fields...), model.FieldInst{Name: rejectField, Type: 't', Stored: true, Value: []byte("secret"), Len: 1, Toks: []model.Tok{{Term: "classified", Freq: 1}}})
			rb.Docs[d] = nd
			guard(c.R, id+" rejected build", func() {
				if seg, _, err := zx.Build(rb); err == nil {
					c.R.Fail("validator-ignored", "%s: the validator rejected a field but New succeeded", id)
					seg.Close()
				}
			})
			c.R.Inc("rejected_then_retry", 1)
		}
		guard(c.R, id, func() {
			seg, _, err := zx.Build(b)
			if err != nil {
				c.R.Fail("build-err", "%s: New: %v", id, err)
				return
			}
			defer seg.Close()
			es := -1
			if class == "tall" {
				es = 20
			}
			oracle.CheckStored(c.R, id, seg, m, es)
			oracle.CheckIDs(c.R, id, seg, m, nil)
			if i%5 == 0 { // the other residence
				p := c.Scratch.Path("c02")
				if err := zx.Persist(seg, p); err != nil {
					c.R.Fail("persist-err", "%s: %v", id, err)
					return
				}
				o, err := zx.Open(p)
				if err != nil {
					c.R.Fail("open-err", "%s: %v", id, err)
					return
				}
				oracle.CheckStored(c.R, id+"/opened", o, m, 3)
				oracle.CheckIDs(c.R, id+"/opened", o, m, nil)
				o.Close()
				removeFile(p)
			}
		})
		nt := false
		for _, sv := range m.Stored {
			if len(sv) >= 2 {
				nt = true
			}
		}
		if nt && m.NumDocs >= 2 {
			c.Distinct(fp)
		}
		c.R.Inc("batches_class_"+class, 1)
		c.Sample(map[string]interface{}{"case": id, "class": class, "docs": len(b.Docs), "ids": firstN(m.IDs, 5)})
		c.End()
	}
}

func firstN(s []string, n int) []string {
	if len(s) > n {
		return s[:n]
	}
	return s
}

var dvChunks = []uint32{1, 2, 3, 5, 8, 1024, 4, 7, 16}

// C03 — doc values return exactly each document's terms.
func c03(c *Ctx) {
	n := c.N(1500, 120000)
	for i := 0; i < n; i++ {
		if !c.Mine(i) {
			continue
		}
		rng := c.Rng(i)
		class := []string{"mid", "small", "deep", "mid", "wide", "one"}[i%6]
		if i%97 == 96 {
			class = "tall"
		}
		dvc := dvChunks[(i/6)%len(dvChunks)]
		if class == "tall" {
			dvc = []uint32{1024, 512, 100}[(i/97)%3]
		}
		mode := modeFor(i, rng)
		o3 := model.GenOpts{NoBig: true, IDPrefix: "a"}
		if class == "tall" {
			o3.Docs = []int{1024, 0, 2048}[(i/97)%3]
		} else if i%6 == 0 {
			// document counts at exact multiples of the doc-value chunk size
			o3.Docs = int(dvc) * (1 + rng.Intn(4))
			if o3.Docs > 80 {
				o3.Docs = 0
			}
		}
		a := model.Gen(rng, class, o3)
		b := model.Gen(rng, []string{"small", "mid", "one", "empty"}[rng.Intn(4)], model.GenOpts{NoBig: true, IDPrefix: "b"})
		forceDV(a, rng)
		forceDV(b, rng)
		fp := a.Fingerprint() ^ b.Fingerprint()<<1
		id := fmt.Sprintf("b%d", i)
		if !c.Case(id, caseDesc{Class: class, Mode: mode, Docs: len(a.Docs), DVC: dvc, FP: fpString(fp)}) {
			continue
		}
		ma, mb := model.Build(a), model.Build(b)
		zx.SetChunkMode(mode)
		zx.SetDVChunk(dvc)
		guard(c.R, id, func() {
			sa, _, err := zx.Build(a)
			if err != nil {
				c.R.Fail("build-err", "%s: %v", id, err)
				return
			}
			defer sa.Close()
			sb, _, err := zx.Build(b)
			if err != nil {
				c.R.Fail("build-err", "%s: %v", id, err)
				return
			}
			defer sb.Close()
			oracle.CheckDocValues(c.R, []oracle.DVTarget{{Tag: id + "/A", Seg: sa, M: ma}, {Tag: id + "/B", Seg: sb, M: mb}},
				rng, uint64(dvc), []string{"zz_absent"})
			// the other loader: persisted and re-opened
			p := c.Scratch.Path("c03")
			defer removeFile(p)
			if err := zx.Persist(sa, p); err != nil {
				c.R.Fail("persist-err", "%s: %v", id, err)
				return
			}
			so, err := zx.Open(p)
			if err != nil {
				c.R.Fail("open-err", "%s: %v", id, err)
				return
			}
			defer so.Close()
			oracle.CheckDocValues(c.R, []oracle.DVTarget{{Tag: id + "/A-opened", Seg: so, M: ma}, {Tag: id + "/B", Seg: sb, M: mb}},
				rng, uint64(dvc), nil)
			// merged: doc values written by the merge path
			if i%2 == 0 {
				drops := []map[uint32]bool{randDrops(rng, ma.NumDocs, 3), randDrops(rng, mb.NumDocs, 4)}
				mm, _ := model.Merge([]*model.Seg{ma, mb}, drops)
				mp := c.Scratch.Path("c03m")
				defer removeFile(mp)
				_, _, err := zx.Merge(segs(so, sb), zx.Drops(drops, nil), mp, nil, nil)
				if err != nil {
					c.R.Fail("merge-err", "%s: %v", id, err)
					return
				}
				sm, err := zx.Open(mp)
				if err != nil {
					c.R.Fail("open-err", "%s: merged: %v", id, err)
					return
				}
				defer sm.Close()
				oracle.CheckDocValues(c.R, []oracle.DVTarget{{Tag: id + "/merged", Seg: sm, M: mm}}, rng, uint64(dvc), nil)
				c.R.Inc("dv_merged_segments", 1)
			}
		})
		zx.SetDVChunk(1024)
		c.R.Inc(fmt.Sprintf("cases_dvchunk_%d", dvc), 1)
		ntv := 0
		for _, per := range ma.DV {
			for _, t := range per {
				if len(t) > 0 {
					ntv++
				}
			}
		}
		if ntv >= 2 && uint64(len(a.Docs)) > uint64(dvc) {
			c.Distinct(fp ^ uint64(dvc)<<40)
		}
		c.Sample(map[string]interface{}{"case": id, "class": class, "dvchunk": dvc, "docs": len(a.Docs), "dv_fields": keys(ma.DVField)})
		c.End()
	}
}

var (
	c04gc, c04procs = 100, 1
	c04inRamp       bool
)

var c04ramp = []string{"ramp10", "ramp10", "ramp13", "one", "ramp10", "ramp10", "ramp16", "one", "ramp10", "ramp10", "ramp19", "one", "ramp10", "ramp10", "ramp115", "one", "small"}

// the in-memory segment kept alive across the next case of C04
var (
	c04held    segment.Segment
	c04heldImg []byte
	c04heldTag string
)

// C04 — persisted and re-opened ≡ in-memory.
func c04(c *Ctx) {
	n := c.N(1200, 16000)
	tallEvery := c.N(150, 200)
	for i := 0; i < n; i++ {
		if !c.Mine(i) {
			continue
		}
		if ns := c.NShards; ns > 0 && (i/ns)%20 == 18 && !VecBuild {
			// (the 19th, 39th, ... case of a worker: never inside the ramp below)
			c04concurrent(c, i)
		}
		rng := c.Rng(i)
		class := classFor(i, rng, tallEvery)
		mode := modeFor(i, rng)
		if class == "huge" {
			mode = hugeMode(i)
		}
		o4 := model.GenOpts{Syn: rng.Intn(3) == 0, Vec: VecBuild && rng.Intn(2) == 0}
		if class == "tall" {
			// document counts at exact multiples of the doc-value chunk size come round deterministically
			o4.Docs = []int{1024, 0, 2048, 0}[(i/tallEvery)%4]
		}
		b := model.Gen(rng, class, o4)
		if class == "tall" {
			forceDV(b, rng)
		}
		inRamp := c.NShards > 0 && i%c.NShards == 5%c.NShards && i/c.NShards < len(c04ramp)
		if inRamp {
			// consecutive cases of one worker: same document count, growing documents, each
			// followed by a one-document batch (the previous in-memory segment stays alive
			// during the next build, see below)
			b, class = histBatch(rng, c04ramp[i/c.NShards], ""), "ramp"
			mode = 1026 // one chunk mode for the whole ramp: sizes grow as intended
		}
		if inRamp != c04inRamp {
			// consecutive builds share one pooled builder only if no collection empties the
			// pool and the goroutine stays on one P in between: both are arranged for the
			// duration of the ramp
			if inRamp {
				c04gc, c04procs = debug.SetGCPercent(-1), runtime.GOMAXPROCS(1)
			} else {
				debug.SetGCPercent(c04gc)
				runtime.GOMAXPROCS(c04procs)
			}
			c04inRamp = inRamp
		}
		if i%97 == 96 {
			// body (or whole image) exactly at a power of two
			zx.SetChunkMode(mode)
			if sb := sizedBatch(rng, sizedTargets[(i/97)%len(sizedTargets)]); sb != nil {
				b, class = sb, "sized"
				c.R.Inc("batches_tuned_to_an_exact_size", 1)
			}
		}
		fp := b.Fingerprint()
		id := fmt.Sprintf("b%d", i)
		if !c.Case(id, caseDesc{Class: class, Mode: mode, Docs: len(b.Docs), FP: fpString(fp)}) {
			continue
		}
		m := model.Build(b)
		zx.SetChunkMode(mode)
		guard(c.R, id, func() {
			seg, size, err := zx.Build(b)
			if err != nil {
				c.R.Fail("build-err", "%s: %v", id, err)
				return
			}
			// the in-memory segment of the previous case is still alive: building this
			// one must not have changed it
			if c04held != nil {
				var hb bytes.Buffer
				if _, err := writeTo(c04held, &hb); err != nil || !bytes.Equal(hb.Bytes(), c04heldImg) {
					c.R.Fail("earlier-segment-changed", "%s: the in-memory segment of %s emits a different image after this build (err %v, %d vs %d bytes)", id, c04heldTag, err, hb.Len(), len(c04heldImg))
				}
				c.R.Inc("earlier_segments_rechecked_after_a_later_build", 1)
				c04held.Close()
				c04held = nil
			}
			keep := false
			defer func() {
				if !keep {
					seg.Close()
				}
			}()
			p := c.Scratch.Path("c04")
			defer removeFile(p)
			if i%3 == 1 {
				// the destination already exists as an empty file (a reserved name)
				os.WriteFile(p, nil, 0600)
				c.R.Inc("persists_to_a_preexisting_empty_file", 1)
			}
			if err := zx.Persist(seg, p); err != nil {
				c.R.Fail("persist-err", "%s: %v", id, err)
				return
			}
			data := readFile(p)
			if !VecBuild && len(data) < 1<<20 {
				defer func() { c04held, c04heldImg, c04heldTag, keep = seg, data, id, true }()
			}
			var buf bytes.Buffer
			nw, err := writeTo(seg, &buf)
			if err != nil {
				c.R.Fail("writeto-err", "%s: WriteTo: %v", id, err)
			} else {
				if nw != int64(buf.Len()) {
					c.R.Fail("writeto-len", "%s: WriteTo returned %d, wrote %d bytes", id, nw, buf.Len())
				}
				if !bytes.Equal(buf.Bytes(), data) {
					c.R.Fail("writeto-bytes", "%s: WriteTo bytes (%d) differ from Persist bytes (%d)", id, buf.Len(), len(data))
				}
				c.R.Inc("bytes_compared", int64(len(data)))
				// "WriteTo emits these bytes" also when the destination takes only a
				// prefix: a reported success means the whole image reached the writer
				for _, l := range []int{0, len(data) / 2, len(data) - 53, len(data) - 52, len(data) - 4, len(data) - 1} {
					if l < 0 {
						continue
					}
					w := &failWriter{limit: l, short: l%2 == 0}
					if n, err := writeTo(seg, w); err == nil {
						c.R.Fail("writeto-short", "%s: WriteTo reported success (n=%d) although only %d of %d bytes reached the writer", id, n, len(w.buf), len(data))
						break
					}
					c.R.Inc("writeto_prefix_destinations", 1)
				}
			}
			if uint64(len(data)) != size+52 {
				c.R.Fail("size", "%s: New reported %d bytes, file has %d (= %d + footer 52?)", id, size, len(data), size)
			}
			checkFileFooter(c.R, id, data, m.NumDocs, mode)
			o, err := zx.Open(p)
			if err != nil {
				c.R.Fail("open-err", "%s: %v", id, err)
				return
			}
			defer o.Close()
			checkOpenedAccessors(c.R, id, o, data)
			light := class == "tall"
			fullSurface(c, id+"/mem", seg, m, mode, rng, light)
			fullSurface(c, id+"/opened", o, m, mode, rng, light)
			c.R.Inc("files_compared", 1)
		})
		if nontrivialBatch(m) {
			c.Distinct(fp ^ uint64(mode)<<48)
		}
		c.Sample(map[string]interface{}{"case": id, "class": class, "mode": mode, "docs": len(b.Docs), "fields": m.Fields})
		c.End()
	}
}

// Several in-memory segments (different document counts and chunk modes) are emitted
// at the same time, one goroutine each, as the persisters of several indexes of one
// process do: every image is the one the segment emitted when it was alone.
func c04concurrent(c *Ctx, i int) {
	const G, rounds = 8, 1500
	id := fmt.Sprintf("t%d", i)
	if !c.Case(id, caseDesc{Class: "together", Docs: G}) {
		return
	}
	defer c.End()
	rng := c.Rng(i + 1<<24)
	type one struct {
		seg segment.Segment
		img []byte
	}
	var segs []one
	defer func() {
		for _, s := range segs {
			s.seg.Close()
		}
	}()
	ok := true
	guard(c.R, id, func() {
		for g := 0; g < G; g++ {
			b := histBatch(rng, []string{"small", "one", "fewfields", "small"}[g%4], fmt.Sprintf("t%d-", g))
			mode := []uint32{1026, 1025, 1024, 3, 1026, 64, 1025, 1}[g]
			zx.SetChunkMode(mode)
			seg, _, err := zx.Build(b)
			if err != nil {
				c.R.Fail("build-err", "%s: %v", id, err)
				ok = false
				return
			}
			var buf bytes.Buffer
			if _, err := writeTo(seg, &buf); err != nil {
				c.R.Fail("writeto-err", "%s: WriteTo: %v", id, err)
				ok = false
			}
			segs = append(segs, one{seg, buf.Bytes()})
			checkFileFooter(c.R, id, buf.Bytes(), uint64(len(b.Docs)), mode)
		}
	})
	if !ok || len(segs) != G {
		return
	}
	type bad struct {
		g, round int
		how      string
	}
	bads := make([]*bad, G)
	paths := make([]string, G)
	for g := range paths {
		paths[g] = c.Scratch.Path(fmt.Sprintf("c04t%d", g))
	}
	var wg sync.WaitGroup
	for g := 0; g < G; g++ {
		wg.Add(1)
		go func(g int) {
			defer wg.Done()
			defer func() {
				if r := recover(); r != nil && bads[g] == nil {
					bads[g] = &bad{g, -1, fmt.Sprint("panic: ", r)}
				}
			}()
			var buf bytes.Buffer
			for r := 0; r < rounds && bads[g] == nil; r++ {
				if r%100 == 99 {
					if err := zx.Persist(segs[g].seg, paths[g]); err != nil {
						bads[g] = &bad{g, r, "Persist: " + err.Error()}
					} else if !bytes.Equal(readFile(paths[g]), segs[g].img) {
						bads[g] = &bad{g, r, "the file written by Persist differs from the image the segment emitted alone"}
					}
					removeFile(paths[g])
					continue
				}
				buf.Reset()
				if _, err := writeTo(segs[g].seg, &buf); err != nil {
					bads[g] = &bad{g, r, "WriteTo: " + err.Error()}
				} else if !bytes.Equal(buf.Bytes(), segs[g].img) {
					bads[g] = &bad{g, r, "the image written by WriteTo differs from the image the segment emitted alone"}
				}
			}
		}(g)
	}
	wg.Wait()
	for _, b := range bads {
		if b != nil {
			c.R.Fail("emitted-together", "%s: segment %d of %d emitted at the same time, round %d: %s", id, b.g, G, b.round, b.how)
		}
	}
	c.R.Inc("images_emitted_while_others_were_emitting", int64(G*rounds))
	c.R.Inc("rounds_of_simultaneous_emission", 1)
}
