package main

import (
	"fmt"
	"math/rand"
	"os"
	"sync"

	segment "github.com/blevesearch/scorch_segment_api/v2"

	"verif/harness/model"
	"verif/harness/oracle"
	"verif/harness/zx"
)

func init() {
	workloads["C08"] = c08
	workloads["C08c"] = c08conc
}

// C08 — dictionary enumeration, counts, Contains, Cardinality over all
// provenances (built / re-opened / merged once / merged twice).
func c08(c *Ctx) {
	n := c.N(320, 4000)
	for i := 0; i < n; i++ {
		if !c.Mine(i) {
			continue
		}
		rng := c.Rng(i)
		class := []string{"small", "mid", "deep", "wide", "one", "small"}[i%6]
		mode := modeFor(i, rng)
		if i == 9 {
			// once per run: more than 65536 documents, one term in all of them
			class, mode = "huge", hugeMode(i)
		}
		a := model.Gen(rng, class, model.GenOpts{NoBig: true, IDPrefix: "a", Syn: rng.Intn(6) == 0})
		b := model.Gen(rng, []string{"small", "mid", "one", "empty"}[rng.Intn(4)], model.GenOpts{NoBig: true, IDPrefix: "b"})
		ma, mb := model.Build(a), model.Build(b)
		d1 := []map[uint32]bool{randDrops(rng, ma.NumDocs, 3), randDrops(rng, mb.NumDocs, 3)}
		m1, _ := model.Merge([]*model.Seg{ma, mb}, d1)
		d2 := []map[uint32]bool{randDrops(rng, m1.NumDocs, 3)}
		second := rng.Intn(2) == 0 // merge the output alone, or together with a leaf again
		var m2 *model.Seg
		if second {
			m2, _ = model.Merge([]*model.Seg{m1}, d2)
		} else {
			d2 = append(d2, map[uint32]bool{})
			m2, _ = model.Merge([]*model.Seg{m1, mb}, d2)
		}
		fp := a.Fingerprint() ^ b.Fingerprint()<<1
		id := fmt.Sprintf("d%d", i)
		if !c.Case(id, caseDesc{Class: class, Mode: mode, Docs: len(a.Docs), FP: fpString(fp), Extra: fmt.Sprintf("merge1 survivors %d, merge2 survivors %d", m1.NumDocs, m2.NumDocs)}) {
			continue
		}
		zx.SetChunkMode(mode)
		guard(c.R, id, func() {
			sa, _, err := zx.Build(a)
			if err != nil {
				c.R.Fail("build-err", "%s: %v", id, err)
				return
			}
			defer sa.Close()
			sb, _, err := zx.Build(b)
			if err != nil {
				c.R.Fail("build-err", "%s: %v", id, err)
				return
			}
			defer sb.Close()
			light := i%4 != 0 || class == "huge"
			oracle.CheckDictionary(c.R, id+"/built", sa, ma, rng, light)
			c.R.Inc("dict_provenance_built", 1)
			pa := c.Scratch.Path("c08a")
			defer os.Remove(pa)
			if err := zx.Persist(sa, pa); err != nil {
				c.R.Fail("persist-err", "%s: %v", id, err)
				return
			}
			oa, err := zx.Open(pa)
			if err != nil {
				c.R.Fail("open-err", "%s: %v", id, err)
				return
			}
			defer oa.Close()
			oracle.CheckDictionary(c.R, id+"/opened", oa, ma, rng, light)
			c.R.Inc("dict_provenance_opened", 1)
			p1 := c.Scratch.Path("c08m1")
			defer os.Remove(p1)
			if _, _, err := zx.Merge(segs(oa, sb), zx.Drops(d1, nil), p1, nil, nil); err != nil {
				c.R.Fail("merge-err", "%s: merge1: %v", id, err)
				return
			}
			o1, err := zx.Open(p1)
			if err != nil {
				c.R.Fail("open-err", "%s: merge1: %v", id, err)
				return
			}
			defer o1.Close()
			oracle.CheckDictionary(c.R, id+"/merged1", o1, m1, rng, light)
			c.R.Inc("dict_provenance_merged_once", 1)
			p2 := c.Scratch.Path("c08m2")
			defer os.Remove(p2)
			in2 := segs(o1)
			if !second {
				in2 = append(in2, sb)
			}
			if _, _, err := zx.Merge(in2, zx.Drops(d2, nil), p2, nil, nil); err != nil {
				c.R.Fail("merge-err", "%s: merge2: %v", id, err)
				return
			}
			o2, err := zx.Open(p2)
			if err != nil {
				c.R.Fail("open-err", "%s: merge2: %v", id, err)
				return
			}
			defer o2.Close()
			oracle.CheckDictionary(c.R, id+"/merged2", o2, m2, rng, light)
			c.R.Inc("dict_provenance_merged_twice", 1)
			c.R.Inc("onehit_terms_in_merged", oneHitTerms(m1)+oneHitTerms(m2))
		})
		if nontrivialBatch(ma) {
			c.Distinct(fp ^ uint64(mode)<<48)
		}
		c.Sample(map[string]interface{}{"case": id, "class": class, "mode": mode, "fields": ma.Fields, "terms_of_first_field": firstN(ma.Terms(lastField(ma)), 8)})
		c.End()
	}
}

func lastField(m *model.Seg) string {
	if len(m.Fields) == 0 {
		return ""
	}
	return m.Fields[len(m.Fields)-1]
}

var _ segment.Segment

// c08conc: many goroutines enumerate the dictionaries of a fresh (cold) shared
// segment at once (race flavour): every enumeration must equal the model.
func c08conc(c *Ctx) {
	n := c.N(48, 480)
	for i := 0; i < n; i++ {
		if !c.Mine(i) {
			continue
		}
		rng := c.Rng(i)
		b := model.Gen(rng, []string{"wide", "small", "mid"}[i%3], model.GenOpts{NoBig: true})
		m := model.Build(b)
		id := fmt.Sprintf("q%d", i)
		if !c.Case(id, caseDesc{Docs: len(b.Docs), FP: fpString(b.Fingerprint())}) {
			continue
		}
		zx.SetChunkMode(1026)
		guard(c.R, id, func() {
			s, _, err := zx.Build(b)
			if err != nil {
				c.R.Fail("build-err", "%s: %v", id, err)
				return
			}
			defer s.Close()
			p := c.Scratch.Path("c08c")
			defer os.Remove(p)
			if err := zx.Persist(s, p); err != nil {
				c.R.Fail("persist-err", "%s: %v", id, err)
				return
			}
			o, err := zx.Open(p)
			if err != nil {
				c.R.Fail("open-err", "%s: %v", id, err)
				return
			}
			defer o.Close()
			var wg sync.WaitGroup
			start := make(chan struct{})
			for j := 0; j < 8; j++ {
				grng := rand.New(rand.NewSource(rng.Int63()))
				wg.Add(1)
				go func(j int, grng *rand.Rand) {
					defer wg.Done()
					<-start
					tgt := segment.Segment(s)
					if j%2 == 1 {
						tgt = o
					}
					guard(c.R, fmt.Sprintf("%s g%d", id, j), func() {
						oracle.CheckDictionary(c.R, fmt.Sprintf("%s g%d", id, j), tgt, m, grng, true)
					})
				}(j, grng)
			}
			close(start)
			wg.Wait()
			c.R.Inc("dict_concurrent_rounds", 1)
		})
		c.Distinct(b.Fingerprint())
		c.End()
	}
}
