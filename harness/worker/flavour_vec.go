//go:build vectors

package main

import (
	"encoding/json"
	"fmt"
	"math/rand"
	"sort"
	"sync"
	"sync/atomic"

	"github.com/RoaringBitmap/roaring/v2"
	faiss "github.com/blevesearch/go-faiss"
	segment "github.com/blevesearch/scorch_segment_api/v2"

	"verif/harness/model"
	"verif/harness/oracle"
)

// VecBuild reports whether zapx was compiled with the `vectors` tag.
const VecBuild = true

func metricOf(s string) int {
	if s == "l2_norm" {
		return faiss.MetricL2
	}
	return faiss.MetricInnerProduct
}

type vecPair struct {
	doc   uint64
	score float32
}

type fieldStats map[string]map[string]uint64

func (f fieldStats) Store(stat, field string, v uint64) {
	if f[stat] == nil {
		f[stat] = map[string]uint64{}
	}
	f[stat][field] = v
}
func (f fieldStats) Aggregate(segment.FieldStats)        {}
func (f fieldStats) Fetch() map[string]map[string]uint64 { return f }

// recycled vector-postings iterators; each is owned by one goroutine at a time
var (
	vecItMu   sync.Mutex
	vecItFree []segment.VecPostingsIterator
	vecItTurn atomic.Int64
)

func takeVecIt() segment.VecPostingsIterator {
	vecItMu.Lock()
	defer vecItMu.Unlock()
	if n := len(vecItFree); n > 0 && vecItTurn.Add(1)%3 != 0 {
		it := vecItFree[n-1]
		vecItFree = vecItFree[:n-1]
		return it
	}
	return nil
}

func putVecIt(it segment.VecPostingsIterator) {
	vecItMu.Lock()
	defer vecItMu.Unlock()
	if it != nil && len(vecItFree) < 8 {
		vecItFree = append(vecItFree, it)
	}
}

// vecQuery is one search configuration.
type vecQuery struct {
	q        []float32
	k        int64
	filtered bool
	eligible []uint64
	// exhaustive: search parameters that make the engine probe every cluster of
	// a clustered index, so that the result is exact also there
	exhaustive bool
}

var exhaustiveParams = json.RawMessage(`{"ivf_nprobe_pct": 100}`)

func (vq vecQuery) params() json.RawMessage {
	if vq.exhaustive {
		return exhaustiveParams
	}
	return nil
}

// exactFor: the result of vq on a field with n vectors must be the exact top-k.
func exactFor(n int, vq vecQuery) bool { return n < 1000 || vq.exhaustive }

// searchOnce opens a handle with the given exclusion bitmap, runs one search
// and closes the handle.
func searchOnce(r *oracle.Report, tag string, vs segment.VectorSegment, field string, except *roaring.Bitmap, vq vecQuery) ([]vecPair, bool) {
	idx, err := vs.InterpretVectorIndex(field, vq.filtered, except)
	if err != nil || idx == nil {
		r.Fail("vec-open-err", "%s: InterpretVectorIndex(%q): %v", tag, field, err)
		return nil, false
	}
	defer idx.Close()
	return searchHandle(r, tag, idx, vq)
}

func searchHandle(r *oracle.Report, tag string, idx segment.VectorIndex, vq vecQuery) ([]vecPair, bool) {
	var pl segment.VecPostingsList
	var err error
	if vq.filtered {
		pl, err = idx.SearchWithFilter(vq.q, vq.k, vq.eligible, vq.params())
	} else {
		pl, err = idx.Search(vq.q, vq.k, vq.params())
	}
	if err != nil || pl == nil {
		r.Fail("vec-search-err", "%s: search: %v", tag, err)
		return nil, false
	}
	var out []vecPair
	// iterator objects are recycled across searches (any result, empty ones
	// included, any field, any segment); every other recycled one is first used
	// for a walk that is abandoned after one hit
	pre := takeVecIt()
	if pre != nil {
		r.Inc("vec_iterators_recycled", 1)
	}
	it := pl.Iterator(pre)
	if pre != nil && vecItTurn.Add(1)%2 == 0 {
		if _, err := it.Next(); err != nil {
			r.Fail("vec-iter-err", "%s: %v", tag, err)
		}
		putVecIt(it)
		it = pl.Iterator(nil)
	}
	defer func() { putVecIt(it) }()
	for {
		p, err := it.Next()
		if err != nil {
			r.Fail("vec-iter-err", "%s: %v", tag, err)
			return nil, false
		}
		if p == nil {
			if p2, err := it.Next(); err != nil || p2 != nil {
				r.Fail("vec-iter-after-end", "%s: call after the last pair returned %v, %v", tag, p2, err)
			}
			break
		}
		out = append(out, vecPair{p.Number(), p.Score()})
	}
	if pl.Count() != uint64(len(out)) {
		r.Fail("vec-count", "%s: Count %d, iterator yields %d", tag, pl.Count(), len(out))
	}
	// the same result through Advance: pairs come in ascending document order;
	// Advance(d) yields the first pair of a document >= d, and nil past the last one
	for k := 1; k < len(out); k++ {
		if out[k].doc < out[k-1].doc {
			r.Fail("vec-order", "%s: pairs not in ascending document order: %v", tag, out)
			return out, true
		}
	}
	if len(out) > 0 {
		it2 := pl.Iterator(nil)
		last := out[len(out)-1].doc
		pos, returned := 0, int64(-1)
		for _, d := range []uint64{0, out[len(out)/2].doc, last, last + 1, last + 1000} {
			if int64(d) <= returned {
				continue // targets lie strictly beyond the last returned document
			}
			var want *vecPair
			for k := pos; k < len(out); k++ {
				if out[k].doc >= d {
					want = &out[k]
					pos = k + 1
					returned = int64(out[k].doc)
					break
				}
			}
			p, err := it2.Advance(d)
			switch {
			case err != nil:
				r.Fail("vec-iter-err", "%s: Advance(%d): %v", tag, d, err)
			case want == nil && p != nil:
				r.Fail("vec-advance", "%s: Advance(%d) past the last pair (doc %d) yields doc %d", tag, d, last, p.Number())
			case want != nil && (p == nil || p.Number() != want.doc || p.Score() != want.score):
				r.Fail("vec-advance", "%s: Advance(%d) yields %v, want (doc %d, %v)", tag, d, p, want.doc, want.score)
			}
			r.Inc("vec_advance_steps", 1)
			if err != nil || p == nil {
				break
			}
		}
	}
	return out, true
}

// checkVecResult is the C14 oracle for one result. exact: the field's index
// is an exact one (fewer than 1000 indexed vectors).
func checkVecResult(r *oracle.Report, tag string, vm *model.VecModel, except map[uint32]bool, vq vecQuery, got []vecPair, exact bool) {
	metric := metricOf(vm.Metric)
	if len(vq.q) != vm.Dims {
		if len(got) != 0 {
			r.Fail("vec-wrong-dim", "%s: query of dimension %d on a field of dimension %d returned %d pairs", tag, len(vq.q), vm.Dims, len(got))
		}
		return
	}
	elig := map[uint32]bool{}
	for _, d := range vq.eligible {
		elig[uint32(d)] = true
	}
	type cv struct {
		doc   uint32
		score float32
	}
	var cands []cv
	byDoc := map[uint32][]float32{}
	for _, e := range vm.Entries {
		s := faiss.Score(metric, vq.q, e.Vec)
		byDoc[e.Doc] = append(byDoc[e.Doc], s)
		if except[e.Doc] || (vq.filtered && !elig[e.Doc]) {
			continue
		}
		cands = append(cands, cv{e.Doc, s})
	}
	if int64(len(got)) > vq.k {
		r.Fail("vec-more-than-k", "%s: %d pairs for k=%d", tag, len(got), vq.k)
	}
	seen := map[vecPair]bool{}
	for _, p := range got {
		if seen[p] {
			r.Fail("vec-dup-pair", "%s: pair (doc %d, %v) twice", tag, p.doc, p.score)
		}
		seen[p] = true
		if except[uint32(p.doc)] {
			r.Fail("vec-excluded-doc", "%s: returned doc %d which is in the exclusion bitmap", tag, p.doc)
			continue
		}
		if vq.filtered && !elig[uint32(p.doc)] {
			r.Fail("vec-ineligible-doc", "%s: returned doc %d which is not eligible", tag, p.doc)
			continue
		}
		ok := false
		for _, s := range byDoc[uint32(p.doc)] {
			if s == p.score {
				ok = true
			}
		}
		if !ok {
			r.Fail("vec-score", "%s: doc %d score %v is not the score of any of its vectors %v", tag, p.doc, p.score, byDoc[uint32(p.doc)])
		}
	}
	r.Inc("vec_pairs_checked", int64(len(got)))
	if !exact {
		r.Inc("vec_results_clustered", 1)
		return
	}
	// exact top-k, ties at the boundary may be broken either way
	sort.SliceStable(cands, func(a, b int) bool { return faiss.Better(metric, cands[a].score, cands[b].score) })
	m := int(vq.k)
	if m > len(cands) {
		m = len(cands)
	}
	if m == 0 {
		if len(got) != 0 {
			r.Fail("vec-topk", "%s: %d pairs although no candidate vector exists", tag, len(got))
		}
		return
	}
	bound := cands[m-1].score
	needed := m
	for _, cnd := range cands {
		if faiss.Better(metric, cnd.score, bound) {
			needed--
			if !seen[vecPair{uint64(cnd.doc), cnd.score}] {
				r.Fail("vec-topk-missing", "%s: (doc %d, %v) is strictly better than the k-th best score %v but was not returned (got %v)", tag, cnd.doc, cnd.score, bound, got)
				return
			}
		}
	}
	tieDocs := map[uint32]int{}
	for _, cnd := range cands {
		if cnd.score == bound {
			tieDocs[cnd.doc]++
		}
	}
	gotTie := 0
	for _, p := range got {
		if faiss.Better(metric, bound, p.score) {
			r.Fail("vec-topk-worse", "%s: (doc %d, %v) is worse than the k-th best score %v", tag, p.doc, p.score, bound)
			return
		}
		if p.score == bound {
			gotTie++
		}
	}
	// `needed` vectors of the tie group are chosen; duplicates of one doc collapse
	counts := make([]int, 0, len(tieDocs))
	for _, n := range tieDocs {
		counts = append(counts, n)
	}
	sort.Sort(sort.Reverse(sort.IntSlice(counts)))
	minDocs, left := 0, needed
	for _, n := range counts {
		if left <= 0 {
			break
		}
		left -= n
		minDocs++
	}
	maxDocs := needed
	if maxDocs > len(tieDocs) {
		maxDocs = len(tieDocs)
	}
	if gotTie < minDocs || gotTie > maxDocs {
		r.Fail("vec-topk-count", "%s: %d pairs at the boundary score %v, want between %d and %d (k=%d, %d candidates)", tag, gotTie, bound, minDocs, maxDocs, vq.k, len(cands))
	}
	r.Inc("vec_results_exact_topk", 1)
}

func genQueries(rng *rand.Rand, vm *model.VecModel, numDocs uint64, light bool) []vecQuery {
	var qs []vecQuery
	n := int64(len(vm.Entries))
	mkq := func() []float32 {
		if len(vm.Entries) > 0 && rng.Intn(2) == 0 {
			return append([]float32(nil), vm.Entries[rng.Intn(len(vm.Entries))].Vec...)
		}
		q := make([]float32, vm.Dims)
		for i := range q {
			q[i] = float32(rng.Intn(17)-8) / 4
		}
		return q
	}
	ks := []int64{1, 3, n, n + 5}
	if light {
		ks = []int64{1 + int64(rng.Intn(4)), n + 2}
	}
	for _, k := range ks {
		if k <= 0 {
			k = 2
		}
		qs = append(qs, vecQuery{q: mkq(), k: k})
		// filtered searches: empty, < 1/2, > 1/2, all
		var some, most, all []uint64
		for d := uint64(0); d < numDocs; d++ {
			all = append(all, d)
			if rng.Intn(4) == 0 {
				some = append(some, d)
			}
			if rng.Intn(5) != 0 {
				most = append(most, d)
			}
		}
		qs = append(qs, vecQuery{q: mkq(), k: k, filtered: true, eligible: some})
		if !light {
			qs = append(qs, vecQuery{q: mkq(), k: k, filtered: true, eligible: nil})
			qs = append(qs, vecQuery{q: mkq(), k: k, filtered: true, eligible: most})
			qs = append(qs, vecQuery{q: mkq(), k: k, filtered: true, eligible: all})
		}
	}
	if len(vm.Entries) >= 1000 {
		// clustered index: the same queries once more with every cluster probed
		for _, q := range append([]vecQuery(nil), qs...) {
			q.exhaustive = true
			qs = append(qs, q)
		}
	}
	// wrong dimension
	qs = append(qs, vecQuery{q: make([]float32, vm.Dims+1), k: 3})
	return qs
}

func genExcept(rng *rand.Rand, numDocs uint64, style int) (map[uint32]bool, *roaring.Bitmap) {
	set := map[uint32]bool{}
	switch style {
	case 0:
		return set, nil
	case 1:
		return set, roaring.New()
	case 2:
		for d := uint64(0); d < numDocs; d++ {
			if rng.Intn(3) == 0 {
				set[uint32(d)] = true
			}
		}
	case 3:
		for d := uint64(0); d < numDocs; d++ {
			set[uint32(d)] = true
		}
	default:
		if numDocs > 0 {
			set[uint32(rng.Int63n(int64(numDocs)))] = true
		}
	}
	bm := roaring.New()
	for d := range set {
		bm.Add(d)
	}
	return set, bm
}

// checkVectors: slice "vectors" of the full-surface oracle (C14, C15). One
// exclusion bitmap per (segment instance, field): cache history is C16's
// subject, not C14's.
func checkVectors(c *Ctx, tag string, seg segment.Segment, m *model.Seg, rng *rand.Rand) {
	r := c.R
	vs, ok := seg.(segment.VectorSegment)
	if !ok {
		r.Fail("vec-iface", "%s: segment %T is not a VectorSegment", tag, seg)
		return
	}
	// per-field vector count statistic
	if fs, ok := seg.(segment.FieldStatsReporter); ok {
		st := fieldStats{}
		fs.UpdateFieldStats(st)
		for f, vm := range m.Vec {
			if got := st["num_vectors"][f]; got != uint64(len(vm.Entries)) {
				r.Fail("vec-num-vectors", "%s: num_vectors[%q] = %d, want %d", tag, f, got, len(vm.Entries))
			}
		}
		for f := range st["num_vectors"] {
			if m.Vec[f] == nil {
				r.Fail("vec-num-vectors-extra", "%s: num_vectors reported for %q which has no vectors", tag, f)
			}
		}
		r.Inc("vec_stats_checked", 1)
	} else {
		r.Fail("vec-iface", "%s: segment %T does not report field stats", tag, seg)
	}
	var names []string
	for f := range m.Vec {
		names = append(names, f)
	}
	sort.Strings(names)
	for _, f := range names {
		vm := m.Vec[f]
		exSet, exBM := genExcept(rng, m.NumDocs, rng.Intn(5))
		for qi, vq := range genQueries(rng, vm, m.NumDocs, len(vm.Entries) > 200) {
			t := fmt.Sprintf("%s field %q query %d (k=%d filtered=%v |eligible|=%d |except|=%d)", tag, f, qi, vq.k, vq.filtered, len(vq.eligible), len(exSet))
			got, ok := searchOnce(r, t, vs, f, exBM, vq)
			if !ok {
				continue
			}
			checkVecResult(r, t, vm, exSet, vq, got, exactFor(len(vm.Entries), vq))
			r.Inc("vec_searches", 1)
			if vq.filtered {
				r.Inc("vec_searches_filtered", 1)
			}
		}
	}
	// results held across later searches on the same handle: each list keeps
	// answering its own query
	for _, f := range names {
		vm := m.Vec[f]
		exSet, exBM := genExcept(rng, m.NumDocs, rng.Intn(5))
		var held []vecQuery
		for _, vq := range genQueries(rng, vm, m.NumDocs, true) {
			if len(vq.q) == vm.Dims && len(held) < 3 {
				held = append(held, vq)
			}
		}
		idx, err := vs.InterpretVectorIndex(f, true, exBM)
		if err != nil || idx == nil {
			r.Fail("vec-open-err", "%s: InterpretVectorIndex(%q): %v", tag, f, err)
			continue
		}
		var lists []segment.VecPostingsList
		for _, vq := range held {
			var pl segment.VecPostingsList
			if vq.filtered {
				pl, err = idx.SearchWithFilter(vq.q, vq.k, vq.eligible, vq.params())
			} else {
				pl, err = idx.Search(vq.q, vq.k, vq.params())
			}
			if err != nil || pl == nil {
				r.Fail("vec-search-err", "%s field %q: search: %v", tag, f, err)
				break
			}
			lists = append(lists, pl)
		}
		for li, pl := range lists {
			t := fmt.Sprintf("%s field %q held result %d of %d (k=%d filtered=%v)", tag, f, li+1, len(lists), held[li].k, held[li].filtered)
			var got []vecPair
			it := pl.Iterator(nil)
			for {
				p, err := it.Next()
				if err != nil {
					r.Fail("vec-iter-err", "%s: %v", t, err)
					break
				}
				if p == nil {
					break
				}
				got = append(got, vecPair{p.Number(), p.Score()})
			}
			if pl.Count() != uint64(len(got)) {
				r.Fail("vec-count", "%s: Count %d, iterator yields %d", t, pl.Count(), len(got))
			}
			checkVecResult(r, t, vm, exSet, held[li], got, exactFor(len(vm.Entries), held[li]))
			r.Inc("vec_results_held_across_searches", 1)
		}
		idx.Close()
	}
	// fields without vectors and unknown fields give empty results
	for _, f := range append([]string{"zz_absent"}, m.Fields...) {
		if m.Vec[f] != nil {
			continue
		}
		t := fmt.Sprintf("%s non-vector field %q", tag, f)
		for _, vq := range []vecQuery{{q: []float32{1, 2}, k: 3}, {q: []float32{1, 2, 3}, k: 2, filtered: true, eligible: []uint64{0}}} {
			got, ok := searchOnce(r, t, vs, f, nil, vq)
			if ok && len(got) != 0 {
				r.Fail("vec-nonvector-field", "%s: %d pairs", t, len(got))
			}
		}
		r.Inc("vec_nonvector_fields_checked", 1)
	}
}

// checkVectorsLight: one unfiltered and one filtered search per vector field.
func checkVectorsLight(r *oracle.Report, tag string, seg segment.Segment, m *model.Seg, rng *rand.Rand) {
	vs, ok := seg.(segment.VectorSegment)
	if !ok {
		r.Fail("vec-iface", "%s: segment %T is not a VectorSegment", tag, seg)
		return
	}
	for f, vm := range m.Vec {
		exSet, exBM := genExcept(rng, m.NumDocs, rng.Intn(5))
		qs := genQueries(rng, vm, m.NumDocs, true)
		for _, vq := range qs[:2] {
			t := fmt.Sprintf("%s field %q (k=%d filtered=%v)", tag, f, vq.k, vq.filtered)
			got, ok := searchOnce(r, t, vs, f, exBM, vq)
			if ok {
				checkVecResult(r, t, vm, exSet, vq, got, exactFor(len(vm.Entries), vq))
			}
		}
	}
}
