package main

import (
	"fmt"
	"math/rand"
	"os"
	"sort"

	segment "github.com/blevesearch/scorch_segment_api/v2"

	"verif/harness/model"
	"verif/harness/oracle"
	"verif/harness/zx"
)

func init() {
	workloads["C05"] = func(c *Ctx) { mergeWorkload(c, sliceStored) }
	workloads["C06"] = func(c *Ctx) { mergeWorkload(c, slicePostings) }
	workloads["C13"] = func(c *Ctx) { mergeWorkload(c, sliceThes) }
}

const (
	sliceStored = iota
	slicePostings
	sliceThes
	sliceVec
	sliceDec // C09: every merge output is decoded by the independent v16 reader
)

// vecAfterPlan is set by the vectors flavour: engine-monitor check at the end of a plan.
var vecAfterPlan func(c *Ctx, tag string)

// planSeg is one segment of a merge plan with its model.
type planSeg struct {
	seg    segment.Segment
	m      *model.Seg
	path   string
	kind   string // built | opened | merged
	merges int    // merge depth
}

var planClasses = []string{"tall-edge", "xwide", "empty-merged", "same-nodrops", "same-drops", "different", "empty-inputs", "nothing-survives", "chain", "tall", "random", "single-input", "updates"}

type mergeDesc struct {
	Class     string   `json:"class"`
	Mode      uint32   `json:"mode"`
	DVC       uint32   `json:"dvchunk,omitempty"`
	Leaves    []string `json:"leaves"`
	Steps     []string `json:"steps"`
	Survivors []uint64 `json:"survivors"`
	FP        string   `json:"fp"`
}

func dropStyleName(s int) string {
	return []string{"nil", "empty", "random", "all-but-one", "sparse", "full"}[s]
}

// genDrops draws a deletion set in the given style; returns the set and
// whether "no deletions" is passed as nil (true) or as an empty bitmap.
func genDrops(rng *rand.Rand, n uint64, style int) (map[uint32]bool, bool) {
	d := map[uint32]bool{}
	switch style {
	case 0:
		return d, true
	case 1:
		return d, false
	case 2:
		for i := uint64(0); i < n; i++ {
			if rng.Intn(2) == 0 {
				d[uint32(i)] = true
			}
		}
	case 3:
		if n > 0 {
			keep := uint64(rng.Int63n(int64(n)))
			for i := uint64(0); i < n; i++ {
				if i != keep {
					d[uint32(i)] = true
				}
			}
		}
	case 4:
		for i := uint64(0); i < n; i++ {
			if rng.Intn(6) == 0 {
				d[uint32(i)] = true
			}
		}
	case 5:
		for i := uint64(0); i < n; i++ {
			d[uint32(i)] = true
		}
	}
	return d, rng.Intn(2) == 0
}

func oneHitTerms(m *model.Seg) int64 {
	var n int64
	for _, terms := range m.Post {
		for _, hits := range terms {
			if len(hits) == 1 && hits[0].Freq == 1 && len(hits[0].Locs) == 0 {
				n++
			}
		}
	}
	return n
}

func sameFields(ms []*model.Seg) bool {
	if len(ms) == 0 {
		return true
	}
	for _, m := range ms[1:] {
		if len(m.Fields) != len(ms[0].Fields) {
			return false
		}
		for i := range m.Fields {
			if m.Fields[i] != ms[0].Fields[i] {
				return false
			}
		}
	}
	return true
}

func mergeWorkload(c *Ctx, slice int) {
	n := c.N(1600, 60000)
	if slice == sliceDec {
		n = c.N(660, 6600)
	}
	for i := 0; i < n; i++ {
		if !c.Mine(i) {
			continue
		}
		rng := c.Rng(i)
		class := planClasses[i%len(planClasses)]
		round := i / len(planClasses)
		if class == "tall" && round%c.N(4, 3) != 0 {
			class = "random" // tall plans are big: only every few rounds
		}
		if class == "tall-edge" && round%2 != 0 {
			class = "different"
		}
		if class == "xwide" && round%3 != 0 {
			class = "chain"
		}
		if i == 33 {
			class = "huge" // once per run: document numbers beyond 16 bits
		}
		runMergePlan(c, i, rng, class, slice)
	}
}

func runMergePlan(c *Ctx, i int, rng *rand.Rand, class string, slice int) {
	id := fmt.Sprintf("p%d", i)
	mode := modeFor(i, rng)
	dvc := uint32(1024)
	if slice == slicePostings {
		dvc = []uint32{1024, 2, 5, 1, 1024, 3}[(i/len(planClasses))%6]
	}
	syn := slice == sliceThes || rng.Intn(8) == 0
	vec := VecBuild && (slice == sliceVec || rng.Intn(4) == 0)

	// ---- leaves
	nLeaves := 2 + rng.Intn(3)
	var batches []*model.Batch
	var leafDesc []string
	sharedNames := pick3(rng)
	sharedTerms := []string{"a", "b", "ab", "zz", "k", ""}
	for l := 0; l < nLeaves; l++ {
		o := model.GenOpts{Syn: syn && rng.Intn(4) != 0, Vec: vec, NoBig: true, IDPrefix: fmt.Sprintf("s%d-", l), VecSalt: 1 + i%997}
		cl := []string{"small", "mid", "deep", "one", "wide"}[rng.Intn(5)]
		switch class {
		case "same-nodrops", "same-drops":
			o.Names, o.Terms = sharedNames, sharedTerms
			if o.Syn || o.Vec {
				// keep field lists identical: every leaf gets the same synonym/vector fields or none
				o.Syn, o.Vec = false, false
			}
		case "empty-merged":
			if (i/len(planClasses))%2 == 0 {
				// identical field lists: the emptied segment and the live ones are byte-copied
				o.Names, o.Terms = sharedNames, sharedTerms
				o.Syn, o.Vec = false, false
			}
		case "empty-inputs":
			if l == rng.Intn(nLeaves) || rng.Intn(3) == 0 {
				cl = "empty"
			}
		case "tall":
			cl = "tall"
			if l > 1 {
				cl = "mid"
			}
			o.Names, o.Terms = sharedNames[:1], []string{"a", "b", "k"}
			if rng.Intn(2) == 0 {
				o.Names = nil // different field lists: re-encode path
			}
			o.Syn, o.Vec = false, slice == sliceVec // >= 1000 vectors: the merged index is a clustered one
			if slice == sliceVec && vec && l == 0 && (i/len(planClasses)/c.N(4, 3))%4 == 3 {
				// one input alone contributes several thousand vectors to a field (more than
				// 4096 and more than 8192 with and without deletions)
				o.Docs = 9500 + rng.Intn(500)
				c.R.Inc("leaves_with_9500_or_more_documents_and_vectors", 1)
			}
		case "xwide":
			cl = "xwide"
			if r := i / len(planClasses) / 3; r%2 == 1 {
				// every leaf has the same w-fields plus _id and _all: the merged field list
				// has exactly 64 / 65 / 66 / 128 / 129 / 256 / 257 entries
				o.NumFields = []int{65, 64, 66, 128, 129, 256, 257, 63}[(r/2)%8] - 2
				o.Syn, o.Vec = false, false
			} else if l > 1 {
				cl = "small"
			}
		case "tall-edge":
			// cardinalities next to a multiple of 1024, a term missing from the
			// earlier (small, heavily deleted) input: writer and reader must
			// agree on the chunk size computed from the surviving cardinality
			o.Names, o.Syn, o.Vec = sharedNames[:2], false, false
			if l == nLeaves-1 {
				cl = "tall"
				o.Docs = []int{1024, 2048}[rng.Intn(2)] + rng.Intn(48) - 8
				// the second field's dictionary starts with the empty term, after a
				// field whose last term has ~1024 hits
				o.Terms, o.Always, o.HasAlways = []string{"t", "b", "k", ""}, "t", true
			} else {
				cl = "mid"
				o.Terms = []string{"a", "b", "k", ""}
			}
		case "huge":
			cl = "small"
			if l == 0 {
				cl = "huge"
			}
			o.Syn = syn
		case "updates":
			o.IDPrefix = "u-" // same ids in every segment, older copies deleted below
			o.NoDupIDs = true
		}
		b := model.Gen(rng, cl, o)
		if (slice == sliceStored || slice == sliceDec) && class == "different" && l == 0 && (i/len(planClasses))%3 == 0 {
			// stored records whose header lengths run across multiples of 128
			b = model.GenMetaSweep(rng, o.IDPrefix)
			cl = "metasweep"
			c.R.Inc("leaves_sweeping_record_header_lengths", 1)
		}
		if slice == sliceThes && class == "same-nodrops" {
			// no deletions in this class: every leaf defines the same term with the same
			// number of synonyms, so the merged pair count is an exact multiple of it
			n := []int{1024, 512, 1023, 2048, 1025, 256}[(i/len(planClasses))%6]
			model.AddBigSynonymDoc(b, fmt.Sprintf("s%d-bigsyn", l), model.ThesPool[0], "big", n)
			c.R.Inc("leaves_with_a_big_synonym_list", 1)
		}
		if slice == sliceThes && class == "different" && l > 0 && (i/len(planClasses))%2 == 0 && hasSynonymDocs(batches[0]) {
			// the later leaves are the first one under other ids with thinned synonym
			// definitions: when two builds lay their sections out alike, the first changed
			// synonym list sits at the same file offset in both inputs, with other content
			b = model.TwinWithThinnedSynonyms(batches[0], rng, "s0-", fmt.Sprintf("s%d-", l))
			cl = "twin"
			c.R.Inc("leaves_twin_with_thinned_synonyms", 1)
		}
		batches = append(batches, b)
		leafDesc = append(leafDesc, fmt.Sprintf("%s(%d docs)", cl, len(b.Docs)))
	}
	fp := uint64(0)
	for _, b := range batches {
		fp = fp*31 + b.Fingerprint()
	}
	desc := &mergeDesc{Class: class, Mode: mode, DVC: dvc, Leaves: leafDesc, FP: fpString(fp)}
	// steps are drawn before anything runs so that the case is fully logged
	type step struct {
		inputs   []int
		styles   []int
		mode     uint32
		drops    []map[uint32]bool
		nilFor   []bool
		mm       *model.Seg
		wantNums [][]uint64
	}
	// models of the pool (leaves, then merge outputs), computed before anything runs
	var poolModels []*model.Seg
	for _, b := range batches {
		poolModels = append(poolModels, model.Build(b))
	}
	nSteps := 1
	if class == "chain" || class == "random" {
		nSteps = 1 + rng.Intn(3)
	}
	if class == "empty-merged" {
		// an empty segment that still lists fields (output of a merge where nothing
		// survived) is merged with live segments, in either order, without drops
		nSteps = 2
	}
	var steps []step
	usedAsInput := map[int]bool{}
	pool := nLeaves
	for s := 0; s < nSteps; s++ {
		var st step
		k := 1 + rng.Intn(4)
		if class == "single-input" {
			k = 1
		}
		if class == "tall-edge" {
			k = nLeaves // all leaves, in order: the small ones first
		}
		if k > pool {
			k = pool
		}
		perm := rng.Perm(pool)
		if class == "huge" {
			st.inputs = []int{0, 1} // the huge leaf and a small one
			usedAsInput[0], usedAsInput[1] = true, true
		} else if vec {
			// vector ids are unique per (vector, document) and survive merges: a
			// segment is never merged together with a segment derived from it, so
			// in vector plans every segment is an input at most once
			var free []int
			for _, x := range perm {
				if !usedAsInput[x] && x != pool-1 {
					free = append(free, x)
				}
			}
			if s > 0 && !usedAsInput[pool-1] {
				free = append([]int{pool - 1}, free...)
			}
			if len(free) == 0 {
				break
			}
			if k > len(free) {
				k = len(free)
			}
			st.inputs = append(st.inputs, free[:k]...)
			for _, x := range st.inputs {
				usedAsInput[x] = true
			}
		} else if s > 0 && class != "empty-merged" {
			// chains: always include the previous output
			st.inputs = append(st.inputs, pool-1)
			for _, p := range perm {
				if len(st.inputs) >= k {
					break
				}
				if p != pool-1 {
					st.inputs = append(st.inputs, p)
				}
			}
		} else if class == "tall-edge" {
			for x := 0; x < k; x++ {
				st.inputs = append(st.inputs, x)
			}
		} else if class == "empty-merged" {
			if s == 0 {
				st.inputs = []int{0}
			} else {
				st.inputs = []int{1}
				if nLeaves > 2 && rng.Intn(2) == 0 {
					st.inputs = append(st.inputs, 2)
				}
				switch where := rng.Intn(3); {
				case where == 0:
					st.inputs = append([]int{pool - 1}, st.inputs...) // empty one first
				case where == 1 && len(st.inputs) == 2:
					st.inputs = []int{st.inputs[0], pool - 1, st.inputs[1]} // between two live ones
				default:
					st.inputs = append(st.inputs, pool-1) // live ones first
				}
			}
		} else {
			st.inputs = append(st.inputs, perm[:k]...)
		}
		for range st.inputs {
			style := rng.Intn(5)
			switch class {
			case "same-nodrops":
				style = rng.Intn(2)
			case "same-drops":
				style = 2 + rng.Intn(3)
			case "nothing-survives":
				style = 5
			case "tall":
				style = []int{0, 4, 2, 4}[rng.Intn(4)]
			case "tall-edge":
				style = []int{2, 4, 0, 3}[rng.Intn(4)]
			case "huge":
				style = []int{2, 4, 2}[rng.Intn(3)]
			case "empty-merged":
				style = 5
				if s > 0 {
					style = rng.Intn(2)
				}
			}
			st.styles = append(st.styles, style)
		}
		st.mode = mode
		if rng.Intn(3) == 0 {
			st.mode = modeFor(i+s+1, rng) // output chunk mode may differ from the inputs'
		}
		if class == "tall" || class == "tall-edge" || class == "huge" {
			// (small fixed chunk sizes cost chunks x terms: gigabytes with 65536 documents)
			st.mode = []uint32{1026, 1025, 1026, 1024, 1023, 800}[rng.Intn(6)]
			if class == "huge" && st.mode < 1024 {
				st.mode = 1026
			}
		}
		var ims []*model.Seg
		for k, in := range st.inputs {
			style := st.styles[k]
			if class == "updates" && s == 0 {
				style = 4
			}
			d, asNil := genDrops(rng, poolModels[in].NumDocs, style)
			st.drops = append(st.drops, d)
			st.nilFor = append(st.nilFor, asNil)
			ims = append(ims, poolModels[in])
		}
		st.mm, st.wantNums = model.Merge(ims, st.drops)
		poolModels = append(poolModels, st.mm)
		desc.Survivors = append(desc.Survivors, st.mm.NumDocs)
		steps = append(steps, st)
		ds := fmt.Sprintf("merge%v drops[", st.inputs)
		for _, y := range st.styles {
			ds += dropStyleName(y) + " "
		}
		desc.Steps = append(desc.Steps, ds+fmt.Sprintf("] mode %d", st.mode))
		pool++
	}
	if class == "tall" && vec && slice == sliceVec && len(steps) == 1 {
		// the number of surviving vectors of one field sits next to 1000, where
		// the class of the merged index switches (exact below, clustered from 1000)
		target := []int{1000, 1001, 999, 0}[(i/len(planClasses)/c.N(4, 3))%4]
		var fields []string
		for f := range steps[0].mm.Vec {
			fields = append(fields, f)
		}
		sort.Strings(fields)
		if target > 0 && len(fields) > 0 {
			st := &steps[0]
			inputOf := map[int]int{}
			for k, in := range st.inputs {
				inputOf[in] = k
			}
			ok := model.TrimVectors(batches, fields[0], func(bi, di int) bool {
				k, isIn := inputOf[bi]
				return isIn && !st.drops[k][uint32(di)]
			}, target)
			var ims []*model.Seg
			for l, b := range batches {
				poolModels[l] = model.Build(b)
			}
			for _, in := range st.inputs {
				ims = append(ims, poolModels[in])
			}
			st.mm, st.wantNums = model.Merge(ims, st.drops)
			poolModels[len(poolModels)-1] = st.mm
			if ok {
				desc.Steps = append(desc.Steps, fmt.Sprintf("field %q: exactly %d surviving vectors", fields[0], target))
				defer c.R.Inc(fmt.Sprintf("merges_with_%d_surviving_vectors", target), 1)
			}
		}
	}
	if !c.Case(id, desc) {
		return
	}
	c.Sample(desc)

	zx.SetDVChunk(dvc)
	defer zx.SetDVChunk(1024)
	var segsPool []*planSeg
	defer func() {
		for _, p := range segsPool {
			if p.seg != nil {
				p.seg.Close()
			}
			if p.path != "" {
				os.Remove(p.path)
			}
		}
		if vecAfterPlan != nil {
			// engine monitor: no native index alive / misused once everything is closed
			vecAfterPlan(c, id)
			c.End()
		}
	}()
	okBuild := true
	guard(c.R, id+" build", func() {
		for l, b := range batches {
			lm := mode
			if class == "tall" {
				lm = []uint32{1026, 1025, 64, 1026, 1023, 900}[(l+i/len(planClasses))%6]
			} else if class == "huge" {
				lm = []uint32{1026, 1025, 1024}[(i+l)%3]
			} else if rng.Intn(4) == 0 {
				lm = modeFor(i+l+7, rng)
			}
			zx.SetChunkMode(lm)
			s, _, err := zx.Build(b)
			if err != nil {
				c.R.Fail("build-err", "%s: leaf %d: %v", id, l, err)
				okBuild = false
				return
			}
			ps := &planSeg{seg: s, m: poolModels[l], kind: "built"}
			if rng.Intn(2) == 0 {
				p := c.Scratch.Path("leaf")
				if err := zx.Persist(s, p); err != nil {
					c.R.Fail("persist-err", "%s: leaf %d: %v", id, l, err)
					okBuild = false
					return
				}
				o, err := zx.Open(p)
				if err != nil {
					c.R.Fail("open-err", "%s: leaf %d: %v", id, l, err)
					okBuild = false
					return
				}
				s.Close()
				ps.seg, ps.path, ps.kind = o, p, "opened"
			}
			segsPool = append(segsPool, ps)
		}
	})
	if !okBuild {
		c.End()
		return
	}
	for si, st := range steps {
		tag := fmt.Sprintf("%s/merge%d", id, si)
		var ins []segment.Segment
		var ms []*model.Seg
		var drops []map[uint32]bool
		var nilFor []bool
		kinds := ""
		for k, in := range st.inputs {
			ps := segsPool[in]
			ins = append(ins, ps.seg)
			ms = append(ms, ps.m)
			drops = append(drops, st.drops[k])
			nilFor = append(nilFor, st.nilFor[k])
			kinds += ps.kind[:1]
			c.R.Inc("merge_inputs_"+ps.kind, 1)
			if ps.merges > 0 {
				c.R.Inc("onehit_terms_read_from_merged_inputs", oneHitTerms(ps.m))
			}
		}
		mm, wantNums := st.mm, st.wantNums
		out := c.Scratch.Path("merged")
		res := &planSeg{m: mm, path: out, kind: "merged", merges: 1}
		for _, in := range st.inputs {
			if segsPool[in].merges >= res.merges {
				res.merges = segsPool[in].merges + 1
			}
		}
		segsPool = append(segsPool, res)
		failed := false
		guard(c.R, tag, func() {
			zx.SetChunkMode(st.mode)
			gotNums, size, err := zx.Merge(ins, zx.Drops(drops, nilFor), out, nil, nil)
			if err != nil {
				c.R.Fail("merge-err", "%s (inputs %s, survivors %d): Merge: %v", tag, kinds, mm.NumDocs, err)
				failed = true
				return
			}
			// path class counters (derived from the inputs, no hook needed)
			same := sameFields(ms)
			for k := range ins {
				switch {
				case same && len(drops[k]) == 0:
					c.R.Inc("merge_inputs_bytecopy_path", 1)
				default:
					c.R.Inc("merge_inputs_reencode_path", 1)
				}
			}
			if mm.NumDocs == 0 {
				c.R.Inc("merges_nothing_survives", 1)
			}
			c.R.Inc("merges", 1)
			c.R.Inc(fmt.Sprintf("merges_depth_%d", res.merges), 1)
			c.R.Inc("survivors", int64(mm.NumDocs))
			if slice == sliceStored {
				// C05: renumbering map, count, size
				if len(gotNums) != len(wantNums) {
					if !(mm.NumDocs == 0 && gotNums == nil) {
						c.R.Fail("newdocnums-len", "%s: %d renumbering maps, want %d", tag, len(gotNums), len(wantNums))
					} else {
						c.R.Fail("newdocnums-nil", "%s: nothing survives: no renumbering maps returned (want %d maps of all-ones)", tag, len(wantNums))
					}
				} else {
					for k := range wantNums {
						if !eqU64(gotNums[k], wantNums[k]) {
							c.R.Fail("newdocnums", "%s: input %d renumbering %v, want %v", tag, k, clip(gotNums[k]), clip(wantNums[k]))
						}
					}
				}
				if fi, err := os.Stat(out); err != nil || uint64(fi.Size()) != size {
					c.R.Fail("merge-size", "%s: reported size %d, stat %v %v", tag, size, fi, err)
				}
			}
			data := readFile(out)
			checkFileFooter(c.R, tag, data, mm.NumDocs, st.mode)
			o, err := zx.Open(out)
			if err != nil {
				c.R.Fail("open-err", "%s: Open(merged, survivors %d): %v", tag, mm.NumDocs, err)
				failed = true
				return
			}
			res.seg = o
		})
		if failed || res.seg == nil {
			break
		}
		o := res.seg
		switch slice {
		case sliceStored:
			guard(c.R, tag+" stored (survivors "+fmt.Sprint(mm.NumDocs)+")", func() { oracle.CheckStored(c.R, tag, o, mm, 4) })
			guard(c.R, tag+" ids (survivors "+fmt.Sprint(mm.NumDocs)+")", func() { oracle.CheckIDs(c.R, tag, o, mm, nil) })
		case slicePostings:
			guard(c.R, tag+" postings", func() {
				oracle.CheckPostings(c.R, tag, o, mm, oracle.PostOpts{ChunkMode: st.mode, AbsentFields: absentFields, AbsentTerms: absentTerms})
			})
			guard(c.R, tag+" dict", func() { oracle.CheckDictionary(c.R, tag, o, mm, rng, true) })
			guard(c.R, tag+" docvalues", func() {
				ts := []oracle.DVTarget{{Tag: tag, Seg: o, M: mm}}
				if len(ins) > 0 && ms[0].NumDocs > 0 {
					ts = append(ts, oracle.DVTarget{Tag: tag + "/input0", Seg: ins[0], M: ms[0]})
				}
				oracle.CheckDocValues(c.R, ts, rng, uint64(dvc), []string{"zz_absent"})
			})
			c.R.Inc("onehit_terms_produced", oneHitTerms(mm))
			// terms present in >= 2 inputs
			for f, terms := range mm.Post {
				for t := range terms {
					k := 0
					for _, m := range ms {
						if _, ok := m.Post[f][t]; ok {
							k++
						}
					}
					if k >= 2 {
						c.R.Inc("terms_in_2plus_inputs", 1)
					}
				}
			}
		case sliceThes:
			guard(c.R, tag+" thesaurus", func() {
				oracle.CheckThesaurus(c.R, tag, o, mm, oracle.ThesOpts{UnknownNames: []string{"nothes"}, UnknownTerms: []string{"unk"}})
			})
			for name, th := range mm.Thes {
				k := 0
				for _, m := range ms {
					if _, ok := m.Thes[name]; ok {
						k++
					}
				}
				if k >= 2 {
					c.R.Inc("thesauri_from_2plus_inputs", 1)
				}
				if k >= 1 && k < len(ms) {
					c.R.Inc("thesauri_in_some_inputs_only", 1)
				}
				if len(th) == 0 {
					c.R.Inc("thesauri_all_definitions_deleted", 1)
				}
			}
			if res.merges >= 2 {
				c.R.Inc("thesauri_merged_of_merged", int64(len(mm.Thes)))
			}
		case sliceVec:
			guard(c.R, tag+" vectors", func() { checkVectors(c, tag, o, mm, rng) })
		case sliceDec:
			guard(c.R, tag+" decode", func() { decodeAndCompare(c, tag, out, mm, st.mode) })
			c.R.Inc("files_from_merge_plans", 1)
		}
		if c.R.Failed() {
			if dd := os.Getenv("VERIF_DEBUG_DUMP"); dd != "" {
				os.MkdirAll(dd, 0755)
				os.WriteFile(dd+"/"+id+"-merged.zap", readFile(out), 0644)
				for k, in := range st.inputs {
					if segsPool[in].path != "" {
						os.WriteFile(fmt.Sprintf("%s/%s-input%d.zap", dd, id, k), readFile(segsPool[in].path), 0644)
					}
				}
			}
			break
		}
	}
	nt := false
	for _, ps := range segsPool {
		if ps.kind == "merged" && ps.m.NumDocs >= 2 {
			nt = true
		}
	}
	if nt {
		c.Distinct(fp ^ uint64(mode)<<50 ^ uint64(len(steps))<<40)
	}
	c.R.Inc("plans_class_"+class, 1)
	c.End()
}

func pick3(rng *rand.Rand) []string {
	p := rng.Perm(len(model.FieldPool))
	return []string{model.FieldPool[p[0]], model.FieldPool[p[1]], model.FieldPool[p[2]]}
}

func eqU64(a, b []uint64) bool {
	if len(a) != len(b) {
		return false
	}
	for i := range a {
		if a[i] != b[i] {
			return false
		}
	}
	return true
}

func clip(a []uint64) []uint64 {
	if len(a) > 12 {
		return a[:12]
	}
	return a
}

func hasSynonymDocs(b *model.Batch) bool {
	for i := range b.Docs {
		if len(b.Docs[i].Syn) > 0 {
			return true
		}
	}
	return false
}
