package main

import (
	"bytes"
	"encoding/binary"
	"fmt"
	"hash/crc32"
	"io"
	"math/rand"
	"os"

	segment "github.com/blevesearch/scorch_segment_api/v2"

	"verif/harness/model"
	"verif/harness/oracle"
	"verif/harness/zx"
)

// fixed chunk modes always exercised + seeded ones in 1..1024
var fixedModes = []uint32{1, 2, 3, 4, 5, 7, 8, 16, 64, 1023, 1024, 1025, 1026}

// hugeMode: chunk modes for batches of more than 65536 documents (a small fixed
// chunk size costs chunks x terms: gigabytes).
func hugeMode(i int) uint32 { return []uint32{1026, 1025, 1024}[i%3] }

func modeFor(i int, rng *rand.Rand) uint32 {
	if i%3 != 2 {
		return fixedModes[(i/3*2+i%3)%len(fixedModes)]
	}
	return uint32(1 + rng.Intn(1024))
}

// classFor spreads the size classes; tall batches are rare (they are big).
func classFor(i int, rng *rand.Rand, tallEvery int) string {
	if i == 78 {
		return "huge" // once per run: document numbers beyond 16 bits
	}
	if tallEvery > 0 && i%tallEvery == tallEvery-1 {
		return "tall"
	}
	if i%61 == 60 {
		return "multi"
	}
	if i%47 == 46 {
		return "xwide"
	}
	cl := []string{"small", "one", "wide", "deep", "mid", "small", "stored", "empty", "mid", "deep"}
	return cl[i%len(cl)]
}

var absentFields = []string{"zz_absent", "", "bod"}
var absentTerms = []string{"nope", "a\x00", "zzzz", "\xfe\xfe", "0"}

type caseDesc struct {
	Class string `json:"class,omitempty"`
	Mode  uint32 `json:"mode,omitempty"`
	Docs  int    `json:"docs"`
	FP    string `json:"fp,omitempty"`
	DVC   uint32 `json:"dvchunk,omitempty"`
	Syn   bool   `json:"syn,omitempty"`
	Vec   bool   `json:"vec,omitempty"`
	Extra string `json:"extra,omitempty"`
}

func fpString(fp uint64) string { return fmt.Sprintf("%016x", fp) }

func nontrivialBatch(m *model.Seg) bool {
	if m.NumDocs < 2 {
		return false
	}
	for f, terms := range m.Post {
		if f == "_id" {
			continue
		}
		for _, hits := range terms {
			if len(hits) >= 2 {
				return true
			}
		}
	}
	return false
}

// guard runs f and converts a panic of the code under test into a violation.
func guard(r *oracle.Report, what string, f func()) {
	defer func() {
		if e := recover(); e != nil {
			r.Fail("panic", "%s: panic: %v", what, e)
		}
	}()
	f()
}

// footer is an independent parse of the documented v16 footer.
type footer struct {
	NumDocs, StoredIdx, FieldsIdx, SectionsIdx, DVOff uint64
	ChunkMode, Version, CRC                           uint32
}

func parseFooter(data []byte) (footer, error) {
	var f footer
	if len(data) < 52 {
		return f, fmt.Errorf("file of %d bytes is shorter than a footer", len(data))
	}
	p := data[len(data)-52:]
	f.NumDocs = binary.BigEndian.Uint64(p[0:])
	f.StoredIdx = binary.BigEndian.Uint64(p[8:])
	f.FieldsIdx = binary.BigEndian.Uint64(p[16:])
	f.SectionsIdx = binary.BigEndian.Uint64(p[24:])
	f.DVOff = binary.BigEndian.Uint64(p[32:])
	f.ChunkMode = binary.BigEndian.Uint32(p[40:])
	f.Version = binary.BigEndian.Uint32(p[44:])
	f.CRC = binary.BigEndian.Uint32(p[48:])
	return f, nil
}

// checkFileFooter checks the C04 footer clause on file bytes.
func checkFileFooter(r *oracle.Report, tag string, data []byte, numDocs uint64, mode uint32) {
	f, err := parseFooter(data)
	if err != nil {
		r.Fail("footer-short", "%s: %v", tag, err)
		return
	}
	if f.NumDocs != numDocs || f.ChunkMode != mode || f.Version != 16 {
		r.Fail("footer-fields", "%s: footer (docs %d, chunk mode %d, version %d), want (%d, %d, 16)", tag, f.NumDocs, f.ChunkMode, f.Version, numDocs, mode)
	}
	if crc := crc32.ChecksumIEEE(data[:len(data)-4]); crc != f.CRC {
		r.Fail("footer-crc", "%s: footer CRC %08x, IEEE CRC-32 of preceding bytes %08x", tag, f.CRC, crc)
	}
	r.Inc("footers_checked", 1)
	r.Inc("crc_bytes", int64(len(data)))
}

type footerAccessors interface {
	CRC() uint32
	Version() uint32
	ChunkMode() uint32
	NumDocs() uint64
	Data() []byte
}

func checkOpenedAccessors(r *oracle.Report, tag string, s segment.Segment, data []byte) {
	fa, ok := s.(footerAccessors)
	if !ok {
		r.Fail("accessors", "%s: opened segment lacks footer accessors", tag)
		return
	}
	f, err := parseFooter(data)
	if err != nil {
		return
	}
	if fa.CRC() != f.CRC || fa.Version() != f.Version || fa.ChunkMode() != f.ChunkMode || fa.NumDocs() != f.NumDocs {
		r.Fail("accessors", "%s: accessors (crc %08x v%d mode %d docs %d) disagree with footer %+v", tag, fa.CRC(), fa.Version(), fa.ChunkMode(), fa.NumDocs(), f)
	}
	if !bytes.Equal(fa.Data(), data) {
		r.Fail("accessors-data", "%s: Data() differs from the file bytes", tag)
	}
}

// fullSurface runs every slice of the oracle that applies to this flavour.
func fullSurface(c *Ctx, tag string, seg segment.Segment, m *model.Seg, mode uint32, rng *rand.Rand, light bool) {
	guard(c.R, tag+" postings", func() {
		oracle.CheckPostings(c.R, tag, seg, m, oracle.PostOpts{ChunkMode: mode, AbsentFields: absentFields, AbsentTerms: absentTerms})
	})
	es := -1
	if light {
		es = 2
	}
	guard(c.R, tag+" stored", func() { oracle.CheckStored(c.R, tag, seg, m, es) })
	guard(c.R, tag+" ids", func() { oracle.CheckIDs(c.R, tag, seg, m, nil) })
	guard(c.R, tag+" docvalues", func() {
		oracle.CheckDocValues(c.R, []oracle.DVTarget{{Tag: tag, Seg: seg, M: m}}, rng, uint64(zx.DVChunk()), []string{"zz_absent"})
	})
	guard(c.R, tag+" thesaurus", func() {
		oracle.CheckThesaurus(c.R, tag, seg, m, oracle.ThesOpts{UnknownNames: []string{"nothes"}, UnknownTerms: []string{"unk", ""}})
	})
	guard(c.R, tag+" dict", func() { oracle.CheckDictionary(c.R, tag, seg, m, rng, true) })
	if VecBuild {
		guard(c.R, tag+" vectors", func() { checkVectors(c, tag, seg, m, rng) })
	}
}

func readFile(path string) []byte {
	b, err := os.ReadFile(path)
	if err != nil {
		return nil
	}
	return b
}

var _ = io.EOF
