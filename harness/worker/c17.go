package main

import (
	"errors"
	"fmt"
	"math/rand"
	"os"
	"os/signal"
	"syscall"

	segment "github.com/blevesearch/scorch_segment_api/v2"

	"verif/harness/model"
	"verif/harness/oracle"
	"verif/harness/zx"
)

func init() { workloads["C17"] = c17 }

var errInjected = errors.New("verif: injected write failure")

// failWriter accepts limit bytes in total, then fails. short: the failing
// call first writes what still fits (short write + error), else it fails at once.
type failWriter struct {
	limit int
	n     int
	short bool
	buf   []byte
}

func (w *failWriter) Write(p []byte) (int, error) {
	if w.n+len(p) <= w.limit {
		w.n += len(p)
		w.buf = append(w.buf, p...)
		return len(p), nil
	}
	if w.short {
		k := w.limit - w.n
		w.n += k
		w.buf = append(w.buf, p[:k]...)
		return k, errInjected
	}
	return 0, errInjected
}

// withFsizeLimit runs f while the process file-size limit is l bytes: the
// kernel fails the write that crosses byte l with EFBIG (SIGXFSZ ignored).
// Nothing else may write to files inside the window.
func withFsizeLimit(l uint64, f func()) error {
	var old syscall.Rlimit
	if err := syscall.Getrlimit(syscall.RLIMIT_FSIZE, &old); err != nil {
		return err
	}
	nl := old
	nl.Cur = l
	if err := syscall.Setrlimit(syscall.RLIMIT_FSIZE, &nl); err != nil {
		return err
	}
	defer syscall.Setrlimit(syscall.RLIMIT_FSIZE, &old)
	f()
	return nil
}

func exists(p string) bool {
	_, err := os.Lstat(p)
	return err == nil
}

// offsetsFor: every offset when the output is small, else boundaries of the
// given period +-1 plus seeded offsets.
func offsetsFor(rng *rand.Rand, size int, period int, all bool) []int {
	if all || size <= 8192 {
		o := make([]int, size)
		for i := range o {
			o[i] = i
		}
		return o
	}
	set := map[int]bool{0: true, 1: true, size - 1: true, size - 4: true, size - 52: true, size - 53: true}
	for b := period; b < size; b += period {
		set[b-1], set[b], set[b+1] = true, true, true
	}
	for i := 0; i < 200; i++ {
		set[rng.Intn(size)] = true
	}
	var o []int
	for k := range set {
		if k >= 0 && k < size {
			o = append(o, k)
		}
	}
	return o
}

func c17(c *Ctx) {
	signal.Ignore(syscall.SIGXFSZ)
	nIn := c.N(32, 240)
	for i := 0; i < nIn; i++ {
		if !c.Mine(i) {
			continue
		}
		rng := c.Rng(i)
		switch i % 4 {
		case 0, 1:
			c17build(c, i, rng)
		default:
			c17merge(c, i, rng)
		}
	}
}

// c17sized: success means a complete file also when the body (or the image) is
// exactly a power of two long; a handful of fault points around such sizes.
func c17sized(c *Ctx, i int, rng *rand.Rand) {
	target := sizedTargets[(i/16)%len(sizedTargets)]
	mode := modeFor(i, rng)
	id := fmt.Sprintf("z%d", i)
	if !c.Case(id, map[string]interface{}{"op": "WriteTo+Persist", "class": "sized", "body_bytes": target, "mode": mode}) {
		return
	}
	defer c.End()
	zx.SetChunkMode(mode)
	b := sizedBatch(rng, target)
	if b == nil {
		c.R.Inc("sized_batches_not_reached", 1)
		return
	}
	m := model.Build(b)
	guard(c.R, id, func() {
		seg, size, err := zx.Build(b)
		if err != nil || size != target {
			c.R.Fail("build-err", "%s: %v (size %d, want %d)", id, err, size, target)
			return
		}
		defer seg.Close()
		w := &failWriter{limit: 1 << 40}
		n, err := writeTo(seg, w)
		if err != nil || uint64(n) != target+52 || uint64(len(w.buf)) != target+52 {
			c.R.Fail("nofault-writeto", "%s: fault-free WriteTo of a body of %d bytes: n=%d err=%v, %d bytes reached the writer, want %d", id, target, n, err, len(w.buf), target+52)
			return
		}
		checkFileFooter(c.R, id+" WriteTo", w.buf, m.NumDocs, mode)
		path, outDir := outPath(c, "c17z")
		defer os.RemoveAll(outDir)
		if err := zx.Persist(seg, path); err != nil {
			c.R.Fail("persist-nofault-err", "%s: %v", id, err)
			return
		}
		if data := readFile(path); string(data) != string(w.buf) {
			c.R.Fail("persist-bytes", "%s: Persist wrote %d bytes, WriteTo %d, or they differ", id, len(data), len(w.buf))
		}
		c17complete(c, id+" persist", path, m, mode, rng)
		c.R.Inc("success_runs_checked", 1)
		size64 := int(target) + 52
		for _, l := range []int{0, 4095, 4096, size64 / 2, int(target) - 1, int(target), int(target) + 1, size64 - 4, size64 - 1, 1 << 20, 1<<20 - 1} {
			if l < 0 || l >= size64 {
				continue
			}
			fw := &failWriter{limit: l, short: l%2 == 1}
			if n, err := writeTo(seg, fw); err == nil {
				c.R.Fail("writeto-swallowed", "%s: WriteTo with the writer failing at byte %d of %d reported success (n=%d)", id, l, size64, n)
				break
			}
			c.R.Inc("faults_writeto", 1)
			os.Remove(path)
			var perr error
			withFsizeLimit(uint64(l), func() { perr = zx.Persist(seg, path) })
			if perr == nil || exists(path) {
				c.R.Fail("persist-swallowed", "%s: Persist with the write crossing byte %d of %d failing: err=%v, file left: %v", id, l, size64, perr, exists(path))
				break
			}
			c.R.Inc("faults_persist", 1)
		}
		c.R.Inc("sized_images_checked", 1)
	})
	c.DistinctN(1)
}

func c17build(c *Ctx, i int, rng *rand.Rand) {
	if i%16 == 12 {
		c17sized(c, i, rng)
		return
	}
	class := []string{"small", "one", "empty", "mid", "deep", "stored"}[(i/4)%6]
	b := model.Gen(rng, class, model.GenOpts{Syn: rng.Intn(3) == 0, Vec: VecBuild && rng.Intn(2) == 0, NoBig: i%8 != 0})
	m := model.Build(b)
	mode := modeFor(i, rng)
	id := fmt.Sprintf("w%d", i)
	if !c.Case(id, map[string]interface{}{"op": "WriteTo+Persist", "class": class, "docs": len(b.Docs), "mode": mode, "fp": fpString(b.Fingerprint())}) {
		return
	}
	defer c.End()
	zx.SetChunkMode(mode)
	// the merge output buffer size is a process-wide knob: Persist and WriteTo must not
	// care about it
	zx.SetMergeBuffer([]int{1 << 20, 64, 4095, 2048, 1 << 20, 1024, 1, 4096}[(i/4)%8])
	defer zx.SetMergeBuffer(1 << 20)
	var seg segment.Segment
	var ref []byte
	ok := false
	guard(c.R, id+" setup", func() {
		s, _, err := zx.Build(b)
		if err != nil {
			c.R.Fail("build-err", "%s: %v", id, err)
			return
		}
		seg = s
		w := &failWriter{limit: 1 << 40}
		n, err := writeTo(seg, w)
		if err != nil || int(n) != len(w.buf) {
			c.R.Fail("nofault-writeto", "%s: fault-free WriteTo: n=%d err=%v wrote %d", id, n, err, len(w.buf))
			return
		}
		ref = w.buf
		ok = true
	})
	if !ok {
		return
	}
	defer seg.Close()
	size := len(ref)
	// --- WriteTo: a failure at every byte offset, both failure styles
	var earliest, latest = -1, -1
	for _, short := range []bool{false, true} {
		for l := 0; l < size; l++ {
			w := &failWriter{limit: l, short: short}
			var n int64
			var err error
			guard(c.R, fmt.Sprintf("%s WriteTo fail@%d", id, l), func() { n, err = writeTo(seg, w) })
			if err == nil {
				c.R.Fail("writeto-swallowed", "%s: WriteTo with the writer failing at byte %d of %d (short=%v) reported success (n=%d, %d bytes reached the writer)", id, l, size, short, n, len(w.buf))
				break
			}
			if earliest < 0 {
				earliest = l
			}
			latest = l
			c.R.Inc("faults_writeto", 1)
		}
	}
	// --- Persist under the file-size limit
	path, outDir := outPath(c, "c17p")
	defer os.RemoveAll(outDir)
	// --- WriteTo into a real file (not only into a writer of the harness) whose
	// growth the kernel stops at a few offsets
	for k, l := range offsetsFor(rng, size, 4096, false) {
		if k%7 != 0 && l != size-1 && l != size-52 {
			continue
		}
		f, err := os.Create(path)
		if err != nil {
			c.R.Fail("harness", "%v", err)
			return
		}
		var n int64
		var werr error
		lerr := withFsizeLimit(uint64(l), func() {
			guard(c.R, fmt.Sprintf("%s WriteTo(file) limit %d", id, l), func() { n, werr = writeTo(seg, f) })
		})
		f.Close()
		st, _ := os.Stat(path)
		os.Remove(path)
		if lerr != nil {
			c.R.Fail("harness", "setrlimit: %v", lerr)
			return
		}
		if werr == nil {
			got := int64(-1)
			if st != nil {
				got = st.Size()
			}
			c.R.Fail("writeto-swallowed", "%s: WriteTo into a file that cannot grow beyond %d of %d bytes reported success (n=%d, file has %d bytes)", id, l, size, n, got)
			break
		}
		c.R.Inc("faults_writeto_file", 1)
	}
	for k, l := range offsetsFor(rng, size, 4096, false) {
		os.Remove(path)
		if k%2 == 1 {
			// destination already exists as an empty file (e.g. left by a crash)
			os.WriteFile(path, nil, 0600)
			c.R.Inc("faults_with_preexisting_empty_destination", 1)
		}
		var err error
		var panicked interface{}
		lerr := withFsizeLimit(uint64(l), func() {
			defer func() { panicked = recover() }()
			err = zx.Persist(seg, path)
		})
		if lerr != nil {
			c.R.Fail("harness", "setrlimit: %v", lerr)
			return
		}
		if panicked != nil {
			c.R.Fail("panic", "%s: Persist with limit %d panicked: %v", id, l, panicked)
			break
		}
		left := exists(path)
		switch {
		case err == nil:
			c.R.Fail("persist-swallowed", "%s: Persist with the write crossing byte %d of %d failing reported success (file left: %v, %d bytes)", id, l, size, left, len(readFile(path)))
		case left:
			c.R.Fail("persist-file-left", "%s: Persist failed at byte %d of %d (%v) but left a file of %d bytes", id, l, size, err, len(readFile(path)))
		case len(listDir(outDir)) > 0:
			c.R.Fail("persist-file-left", "%s: Persist failed at byte %d of %d (%v) but left %v in the output directory", id, l, size, err, listDir(outDir))
			left = true
		}
		c.R.Inc("faults_persist", 1)
		if err == nil || left {
			break
		}
	}
	os.Remove(path)
	// --- WriteTo on the re-opened segment, twice: each call streams the whole image
	// (the CRC field is not compared: a re-opened segment does not know the CRC of its body)
	os.Remove(path)
	if err := zx.Persist(seg, path); err == nil {
		guard(c.R, id+" WriteTo(opened)", func() {
			o, err := zx.Open(path)
			if err != nil {
				c.R.Fail("open-err", "%s: %v", id, err)
				return
			}
			defer o.Close()
			for k := 0; k < 2; k++ {
				w := &failWriter{limit: 1 << 40}
				n, err := writeTo(o, w)
				if err != nil || int(n) != len(w.buf) || len(w.buf) != size || string(w.buf[:size-4]) != string(ref[:size-4]) {
					c.R.Fail("writeto-opened", "%s: WriteTo #%d on the re-opened segment: n=%d err=%v streamed %d bytes, want the %d bytes of the image", id, k+1, n, err, len(w.buf), size)
					break
				}
				c.R.Inc("writeto_on_opened_segment", 1)
			}
		})
	}
	os.Remove(path)
	// --- no fault / limit beyond the size: success and a complete file
	for _, l := range []uint64{uint64(size), uint64(size) + 1, 1 << 40} {
		os.Remove(path)
		var err error
		withFsizeLimit(l, func() { err = zx.Persist(seg, path) })
		if err != nil {
			c.R.Fail("persist-nofault-err", "%s: Persist with limit %d >= size %d failed: %v", id, l, size, err)
			continue
		}
		c17complete(c, id+" persist", path, m, mode, rng)
		c.R.Inc("success_runs_checked", 1)
	}
	os.Remove(path)
	c.R.Max("max_output_size", int64(size))
	c.Distinct(b.Fingerprint())
	c.Sample(map[string]interface{}{"case": id, "op": "WriteTo+Persist", "size": size, "writeto_failing_offsets": []int{earliest, latest}})
}

// c17complete: a reported success means a complete file (C04 footer/CRC, re-opens to the model).
func c17complete(c *Ctx, tag, path string, m *model.Seg, mode uint32, rng *rand.Rand) {
	data := readFile(path)
	checkFileFooter(c.R, tag, data, m.NumDocs, mode)
	guard(c.R, tag, func() {
		o, err := zx.Open(path)
		if err != nil {
			c.R.Fail("open-err", "%s: %v", tag, err)
			return
		}
		defer o.Close()
		oracle.CheckPostings(c.R, tag, o, m, oracle.PostOpts{MaxTerms: 10})
		oracle.CheckStored(c.R, tag, o, m, 1)
		oracle.CheckThesaurus(c.R, tag, o, m, oracle.ThesOpts{})
		if VecBuild {
			checkVectors(c, tag, o, m, rng)
		}
	})
}

func c17merge(c *Ctx, i int, rng *rand.Rand) {
	nl := 2 + rng.Intn(2)
	single := (i/4)%3 == 2 // a third of the merge cases: one input, nothing dropped
	if single {
		nl = 1
	}
	var bs []*model.Batch
	var ms []*model.Seg
	same := rng.Intn(2) == 0
	names := pick3(rng)
	for l := 0; l < nl; l++ {
		o := model.GenOpts{Syn: rng.Intn(3) == 0, Vec: VecBuild && rng.Intn(2) == 0, NoBig: true, IDPrefix: fmt.Sprintf("m%d-", l), VecSalt: 1 + i%997}
		if same {
			o.Names, o.Syn, o.Vec = names, false, false
		}
		cls := []string{"small", "one", "mid", "empty"}
		if single {
			cls = []string{"small", "mid", "mid", "deep"}
		}
		b := model.Gen(rng, cls[rng.Intn(4)], o)
		bs = append(bs, b)
		ms = append(ms, model.Build(b))
	}
	var drops []map[uint32]bool
	for _, m := range ms {
		st := 3
		if same && rng.Intn(2) == 0 {
			st = 0
		}
		if single {
			st = 0
		}
		drops = append(drops, randDrops(rng, m.NumDocs, st))
	}
	mm, _ := model.Merge(ms, drops)
	bufSize := []int{1, 16, 64, 4096, 1 << 20}[(i/4)%5]
	mode := modeFor(i, rng)
	id := fmt.Sprintf("w%d", i)
	if !c.Case(id, map[string]interface{}{"op": "Merge", "inputs": nl, "survivors": mm.NumDocs, "merge_buffer": bufSize, "mode": mode, "same_fields": same}) {
		return
	}
	defer c.End()
	zx.SetChunkMode(mode)
	zx.SetMergeBuffer(bufSize)
	defer zx.SetMergeBuffer(1 << 20)
	var ins []segment.Segment
	defer func() {
		for _, s := range ins {
			s.Close()
		}
	}()
	for _, b := range bs {
		s, _, err := zx.Build(b)
		if err != nil {
			c.R.Fail("build-err", "%s: %v", id, err)
			return
		}
		ins = append(ins, s)
	}
	path, outDir := outPath(c, "c17m")
	defer os.RemoveAll(outDir)
	bm := zx.Drops(drops, nil)
	var size uint64
	var err error
	guard(c.R, id+" fault-free merge", func() { _, size, err = zx.Merge(ins, bm, path, nil, nil) })
	if err != nil || c.R.Failed() {
		c.R.Fail("merge-err", "%s: fault-free Merge: %v", id, err)
		return
	}
	c17complete(c, id+" merge", path, mm, mode, rng)
	period := bufSize
	if period < 16 {
		period = 1
	}
	offs := offsetsFor(rng, int(size), period, bufSize == 1 && size <= 20000)
	for k, l := range offs {
		os.Remove(path)
		if k%2 == 1 {
			os.WriteFile(path, nil, 0600)
			c.R.Inc("faults_with_preexisting_empty_destination", 1)
		}
		var err error
		var panicked interface{}
		lerr := withFsizeLimit(uint64(l), func() {
			defer func() { panicked = recover() }()
			_, _, err = zx.Merge(ins, bm, path, nil, nil)
		})
		if lerr != nil {
			c.R.Fail("harness", "setrlimit: %v", lerr)
			return
		}
		if panicked != nil {
			c.R.Fail("panic", "%s: Merge with limit %d panicked: %v", id, l, panicked)
			break
		}
		left := exists(path)
		if err == nil && left && len(readFile(path)) <= l {
			// the merge output is not byte-deterministic (sections are merged in
			// map order, so varint-encoded offsets differ in length): this run's
			// output was small enough to fit under the limit. A reported success
			// must then be a complete file.
			before := c.R.Failed()
			c17complete(c, fmt.Sprintf("%s merge(limit %d, output %d bytes)", id, l, len(readFile(path))), path, mm, mode, rng)
			if !before && !c.R.Failed() {
				c.R.Inc("merge_output_fit_under_limit", 1)
				continue
			}
		}
		switch {
		case err == nil:
			c.R.Fail("merge-swallowed", "%s: Merge with the write crossing byte %d of %d failing reported success (file left: %v, %d bytes)", id, l, size, left, len(readFile(path)))
		case left:
			c.R.Fail("merge-file-left", "%s: Merge failed at byte %d of %d (%v) but left a file of %d bytes", id, l, size, err, len(readFile(path)))
		case len(listDir(outDir)) > 0:
			c.R.Fail("merge-file-left", "%s: Merge failed at byte %d of %d (%v) but left %v in the output directory", id, l, size, err, listDir(outDir))
			left = true
		}
		c.R.Inc("faults_merge", 1)
		if err == nil || left {
			break
		}
	}
	os.Remove(path)
	var err2 error
	// (merge output sizes vary by a few bytes between runs, so "a limit that is
	// not reached" is 2*size+1024, not size)
	withFsizeLimit(2*size+1024, func() { _, _, err2 = zx.Merge(ins, bm, path, nil, nil) })
	if err2 != nil {
		c.R.Fail("merge-nofault-err", "%s: Merge with limit %d >> size %d failed: %v", id, 2*size+1024, size, err2)
	} else {
		c17complete(c, id+" merge(limit not reached)", path, mm, mode, rng)
		c.R.Inc("success_runs_checked", 1)
	}
	c.R.Inc(fmt.Sprintf("merge_cases_buffer_%d", bufSize), 1)
	c.R.Max("max_output_size", int64(size))
	fp := uint64(0)
	for _, b := range bs {
		fp = fp*31 + b.Fingerprint()
	}
	c.Distinct(fp ^ uint64(bufSize)<<40)
	c.Sample(map[string]interface{}{"case": id, "op": "Merge", "size": size, "merge_buffer": bufSize, "fault_points": len(offs)})
}
