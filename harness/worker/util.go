package main

import (
	"io"
	"math/rand"
	"os"
	"sort"

	segment "github.com/blevesearch/scorch_segment_api/v2"

	"verif/harness/model"
	"verif/harness/zx"
)

func removeFile(p string) { os.Remove(p) }

func segs(s ...segment.Segment) []segment.Segment { return s }

func keys(m map[string]bool) []string {
	var k []string
	for s := range m {
		k = append(k, s)
	}
	sort.Strings(k)
	return k
}

func writeTo(s segment.Segment, w io.Writer) (int64, error) {
	wt, ok := s.(io.WriterTo)
	if !ok {
		return 0, io.ErrUnexpectedEOF
	}
	return wt.WriteTo(w)
}

// forceDV makes sure a batch has at least one doc-value field with terms.
func forceDV(b *model.Batch, rng *rand.Rand) {
	if len(b.Docs) == 0 {
		return
	}
	names := map[string]bool{}
	for _, d := range b.Docs {
		for _, f := range d.Fields {
			if len(f.Toks) > 0 {
				names[f.Name] = true
			}
		}
	}
	ks := keys(names)
	if len(ks) == 0 {
		return
	}
	pick := ks[rng.Intn(len(ks))]
	for di := range b.Docs {
		for fi := range b.Docs[di].Fields {
			if b.Docs[di].Fields[fi].Name == pick {
				b.Docs[di].Fields[fi].DV = true
			}
		}
	}
}

// randDrops draws a deletion set: style 0 none, 1 random, 2 all-but-one, 3 all, else random sparse.
func randDrops(rng *rand.Rand, n uint64, styles int) map[uint32]bool {
	d := map[uint32]bool{}
	if n == 0 {
		return d
	}
	switch rng.Intn(styles + 1) {
	case 0:
	case 1:
		for i := uint64(0); i < n; i++ {
			if rng.Intn(2) == 0 {
				d[uint32(i)] = true
			}
		}
	case 2:
		keep := uint64(rng.Int63n(int64(n)))
		for i := uint64(0); i < n; i++ {
			if i != keep {
				d[uint32(i)] = true
			}
		}
	case 3:
		for i := uint64(0); i < n; i++ {
			if rng.Intn(5) == 0 {
				d[uint32(i)] = true
			}
		}
	default:
		for i := uint64(0); i < n; i++ {
			d[uint32(i)] = true
		}
	}
	return d
}

// outPath returns a file path inside a fresh, empty directory: after a failed
// operation not only the path but the whole directory must be empty (no
// temporary or renamed leftovers).
func outPath(c *Ctx, tag string) (path, dir string) {
	dir = c.Scratch.Path(tag + "-dir")
	os.MkdirAll(dir, 0755)
	return dir + "/out.zap", dir
}

func listDir(dir string) []string {
	ents, _ := os.ReadDir(dir)
	var out []string
	for _, e := range ents {
		out = append(out, e.Name())
	}
	return out
}

// sizedBatch tunes a one-document batch (one incompressible stored value) until
// the segment body built from it is exactly target bytes long: image sizes at
// powers of two, where buffered writers and piece-wise copies switch paths.
// Returns nil when the size is not reached within a few tries.
func sizedBatch(rng *rand.Rand, target uint64) *model.Batch {
	if target < 400 {
		return nil
	}
	l := int64(target) - 200
	val := make([]byte, target+64)
	for i := range val {
		val[i] = byte(rng.Intn(256))
	}
	for try := 0; try < 10 && l > 0 && l <= int64(len(val)); try++ {
		b := &model.Batch{Docs: []model.Doc{{ID: "sized", Fields: []model.FieldInst{
			{Name: "blob", Type: 't', Stored: true, Value: val[:l], Len: 1, Toks: []model.Tok{{Term: "x", Freq: 1}}}}}}}
		seg, size, err := zx.Build(b)
		if err != nil {
			return nil
		}
		seg.Close()
		if size == target {
			return b
		}
		l += int64(target) - int64(size)
	}
	return nil
}

var sizedTargets = []uint64{1 << 20, 2 << 20, 4096, 65536, 1<<20 - 52, 4096 - 52, 1<<20 + 1, 65536 - 52}

// firstFieldName: name of the first field of the first ordinary document
// (synonym-definition documents have no fields).
func firstFieldName(b *model.Batch) string {
	for i := range b.Docs {
		if len(b.Docs[i].Fields) > 0 {
			return b.Docs[i].Fields[0].Name
		}
	}
	return model.FieldPool[0]
}
