// Command worker runs one property workload as a child process of vcheck.
// It logs every case before executing it, so that a crash is attributed to
// the case that caused it, and reports violations, counters and samples as
// JSON lines.
package main

import (
	"encoding/json"
	"flag"
	"fmt"
	"math/rand"
	"os"
	"runtime/debug"
	"sort"
	"sync"

	"verif/harness/oracle"
	"verif/harness/zx"
)

type line struct {
	T        string             `json:"t"` // case | viol | done | note
	Case     string             `json:"case,omitempty"`
	Desc     interface{}        `json:"desc,omitempty"`
	Class    string             `json:"class,omitempty"`
	Detail   string             `json:"detail,omitempty"`
	Counters map[string]int64   `json:"counters,omitempty"`
	Samples  []interface{}      `json:"samples,omitempty"`
	Distinct []uint64           `json:"distinct,omitempty"`
	NDist    int64              `json:"ndistinct,omitempty"` // for enumerations: counted, not listed
	Evals    int64              `json:"evals,omitempty"`
	Exh      bool               `json:"exhaustive,omitempty"`
	Extra    map[string]float64 `json:"extra,omitempty"`
}

// Ctx is the per-process workload context.
type Ctx struct {
	Prop    string
	Tier    string
	Seed    int64
	Shard   int
	NShards int
	Only    string
	Flavour string

	R       *oracle.Report
	Scratch *zx.Scratch

	mu       sync.Mutex
	out      *os.File
	enc      *json.Encoder
	cur      string
	curDesc  interface{}
	evals    int64
	distinct map[uint64]struct{}
	ndist    int64
	samples  []interface{}
	exh      bool
	nviol    int
}

func (c *Ctx) emit(l *line) {
	c.mu.Lock()
	c.enc.Encode(l)
	c.mu.Unlock()
}

// Thorough reports whether the thorough tier was requested.
func (c *Ctx) Thorough() bool { return c.Tier == "thorough" }

// N picks a count by tier.
func (c *Ctx) N(quick, thorough int) int {
	if c.Thorough() {
		return thorough
	}
	return quick
}

// Mine reports whether global case index i belongs to this shard.
func (c *Ctx) Mine(i int) bool { return i%c.NShards == c.Shard }

// Rng returns the PRNG of case i: a function of (seed, property, i) only,
// so that a single case can be replayed without running the others.
func (c *Ctx) Rng(i int) *rand.Rand {
	h := uint64(c.Seed)*0x9E3779B97F4A7C15 + uint64(i)*0xBF58476D1CE4E5B9
	for _, b := range []byte(c.Prop) {
		h = (h ^ uint64(b)) * 0x100000001B3
	}
	return rand.New(rand.NewSource(int64(h & 0x7fffffffffffffff)))
}

// Case announces a case (logged before it runs). It returns false when the
// case must be skipped (replay of another case).
func (c *Ctx) Case(id string, desc interface{}) bool {
	if c.Only != "" && c.Only != id {
		return false
	}
	c.cur, c.curDesc = id, desc
	c.emit(&line{T: "case", Case: id, Desc: desc})
	c.evals++
	return true
}

// End closes the current case: violations collected in R are reported.
func (c *Ctx) End() {
	for _, v := range c.R.Take() {
		c.nviol++
		c.emit(&line{T: "viol", Case: c.cur, Desc: c.curDesc, Class: v.Class, Detail: v.Detail})
	}
}

// Distinct records the fingerprint of a non-trivial case.
func (c *Ctx) Distinct(fp uint64) {
	c.mu.Lock()
	c.distinct[fp] = struct{}{}
	c.mu.Unlock()
}

// DistinctN counts n more distinct non-trivial cases of an enumeration.
func (c *Ctx) DistinctN(n int64) { c.mu.Lock(); c.ndist += n; c.mu.Unlock() }

// AddEvals counts evaluations that are not announced as individual cases
// (inner loops of enumerations).
func (c *Ctx) AddEvals(n int64) { c.mu.Lock(); c.evals += n; c.mu.Unlock() }

// Sample keeps a few cases for the evidence file.
func (c *Ctx) Sample(s interface{}) {
	c.mu.Lock()
	if len(c.samples) < 3 {
		c.samples = append(c.samples, s)
	}
	c.mu.Unlock()
}

func (c *Ctx) Note(format string, a ...interface{}) {
	c.emit(&line{T: "note", Detail: fmt.Sprintf(format, a...)})
}

var workloads = map[string]func(*Ctx){}

func main() {
	c := &Ctx{R: oracle.NewReport(), distinct: map[uint64]struct{}{}}
	var outPath string
	flag.StringVar(&c.Prop, "prop", "", "property id")
	flag.StringVar(&c.Tier, "tier", "quick", "quick|thorough")
	flag.Int64Var(&c.Seed, "seed", 1, "seed")
	flag.IntVar(&c.Shard, "shard", 0, "shard index")
	flag.IntVar(&c.NShards, "nshards", 1, "number of shards")
	flag.StringVar(&c.Only, "only", "", "run only this case id (replay)")
	flag.StringVar(&c.Flavour, "flavour", "plain", "build flavour (informational)")
	flag.StringVar(&outPath, "out", "", "event log")
	list := flag.Bool("list", false, "list workloads")
	flag.Parse()
	if *list {
		var ks []string
		for k := range workloads {
			ks = append(ks, k)
		}
		sort.Strings(ks)
		for _, k := range ks {
			fmt.Println(k)
		}
		return
	}
	w := workloads[c.Prop]
	if w == nil {
		fmt.Fprintf(os.Stderr, "worker: no workload %q in this flavour\n", c.Prop)
		os.Exit(3)
	}
	var err error
	c.out = os.Stdout
	if outPath != "" {
		c.out, err = os.OpenFile(outPath, os.O_CREATE|os.O_WRONLY|os.O_APPEND, 0644)
		if err != nil {
			fmt.Fprintln(os.Stderr, err)
			os.Exit(3)
		}
	}
	c.enc = json.NewEncoder(c.out)
	c.Scratch, err = zx.NewScratch()
	if err != nil {
		fmt.Fprintln(os.Stderr, err)
		os.Exit(3)
	}
	defer c.Scratch.Cleanup()
	debug.SetPanicOnFault(true)
	debug.SetTraceback("all")
	w(c)
	c.End()
	var ds []uint64
	if len(c.distinct) <= 200000 {
		for k := range c.distinct {
			ds = append(ds, k)
		}
	} else {
		c.ndist += int64(len(c.distinct))
	}
	c.emit(&line{T: "done", Counters: c.R.Counters(), Samples: c.samples, Distinct: ds, NDist: c.ndist, Evals: c.evals, Exh: c.exh})
	c.out.Sync()
	c.Scratch.Cleanup()
}
