//go:build !vectors

package main

import (
	"math/rand"

	"github.com/RoaringBitmap/roaring/v2"

	segment "github.com/blevesearch/scorch_segment_api/v2"

	"verif/harness/model"
	"verif/harness/oracle"
)

// VecBuild reports whether zapx was compiled with the `vectors` tag.
const VecBuild = false

func checkVectors(c *Ctx, tag string, seg segment.Segment, m *model.Seg, rng *rand.Rand) {}

func checkVectorsLight(r *oracle.Report, tag string, seg segment.Segment, m *model.Seg, rng *rand.Rand) {
}

func c18engineCancel(c *Ctx, id string, p *c18plan, ins []segment.Segment, bm []*roaring.Bitmap, path string, rng *rand.Rand, counts map[string]int64) {
}
