//go:build !vectors

package main

import (
	"math/rand"

	segment "github.com/blevesearch/scorch_segment_api/v2"

	"verif/harness/model"
	"verif/harness/oracle"
)

// VecBuild reports whether zapx was compiled with the `vectors` tag.
const VecBuild = false

func checkVectors(c *Ctx, tag string, seg segment.Segment, m *model.Seg, rng *rand.Rand) {}

func checkVectorsLight(r *oracle.Report, tag string, seg segment.Segment, m *model.Seg, rng *rand.Rand) {
}
