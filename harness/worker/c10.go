package main

import (
	"bytes"
	"encoding/binary"
	"errors"
	"fmt"
	"math/rand"
	"runtime"
	"sync"

	segment "github.com/blevesearch/scorch_segment_api/v2"

	"verif/harness/model"
	"verif/harness/oracle"
	"verif/harness/zx"
)

func init() {
	workloads["C10"] = c10seq
	workloads["C10c"] = c10conc
}

const rejectField = "REJECT_ME"

var errRejected = errors.New("verif: field rejected by validator")

func installValidator() {
	zx.SetValidator(func(name string) error {
		if name == rejectField {
			return errRejected
		}
		return nil
	})
}

// history classes: what kind of batch each build of a history gets
var histKinds = []string{"large", "small", "manyfields", "fewfields", "syn", "plain", "vec", "empty", "rejected", "one", "dv", "nodv", "deep", "emptysyn", "shapes", "xwide"}

func histBatch(rng *rand.Rand, kind string, prefix string) *model.Batch {
	o := model.GenOpts{NoBig: true, IDPrefix: prefix}
	switch kind {
	case "large":
		return model.Gen(rng, "mid", o)
	case "small":
		return model.Gen(rng, "small", o)
	case "manyfields":
		return model.Gen(rng, "wide", o)
	case "fewfields":
		o.Names = []string{model.FieldPool[rng.Intn(len(model.FieldPool))]}
		return model.Gen(rng, "small", o)
	case "syn":
		o.Syn = true
		return model.Gen(rng, "small", o)
	case "vec":
		o.Vec = VecBuild
		o.Syn = !VecBuild
		return model.Gen(rng, "small", o)
	case "empty":
		return model.Gen(rng, "empty", o)
	case "emptysyn":
		// synonym definitions that analysis left without any synonym: the
		// thesaurus exists but has no term
		b := model.Gen(rng, "small", o)
		n := 1 + rng.Intn(2)
		for k := 0; k < n; k++ {
			b.Docs = append(b.Docs, model.Doc{ID: fmt.Sprintf("%sesyn%d", prefix, k), Syn: []model.SynField{{Thes: model.ThesPool[rng.Intn(2)], Pairs: emptyPairs(rng)}}})
		}
		return b
	case "one":
		return model.Gen(rng, "one", o)
	case "deep":
		return model.Gen(rng, "deep", o)
	case "dv", "nodv":
		b := model.Gen(rng, "small", o)
		for di := range b.Docs {
			b.Docs[di].IDDV = kind == "dv" && rng.Intn(2) == 0
			for fi := range b.Docs[di].Fields {
				b.Docs[di].Fields[fi].DV = kind == "dv"
			}
		}
		return b
	case "xwide":
		// several hundred fields (more than 256 in most draws)
		o.NumFields = []int{300, 257, 255, 400}[rng.Intn(4)]
		return model.Gen(rng, "xwide", o)
	case "giant":
		// an output of about 20 MiB (incompressible stored values)
		b := &model.Batch{}
		for d := 0; d < 320; d++ {
			v := make([]byte, 64<<10)
			for k := range v {
				v[k] = byte(rng.Intn(255))
			}
			b.Docs = append(b.Docs, model.Doc{ID: fmt.Sprintf("%sg%03d", prefix, d), Fields: []model.FieldInst{
				{Name: "blob", Type: 't', Stored: true, Value: v, Len: 1, Toks: []model.Tok{{Term: "x", Freq: 1}}}}})
		}
		return b
	case "shapes":
		// geo-shape instances in fields without doc values: the builder collects
		// their shapes although nothing will write them
		b := model.Gen(rng, "small", o)
		for di := range b.Docs {
			b.Docs[di].IDDV = false
			for fi := range b.Docs[di].Fields {
				b.Docs[di].Fields[fi].DV = false
			}
		}
		model.AddShapes(b, 1)
		return b
	case "ramp10", "ramp115", "ramp13", "ramp16", "ramp19":
		// 80 documents of one field; the number of tokens per document grows with the
		// ramp factor: output sizes between one and two times the previous build's
		// (buffers sized from the previous build are just about large enough)
		per := map[string]int{"ramp10": 20, "ramp115": 23, "ramp13": 26, "ramp16": 32, "ramp19": 38}[kind]
		b := &model.Batch{}
		for d := 0; d < 80; d++ {
			f := model.FieldInst{Name: "ramp", Type: 't', Stored: true, TV: true, Len: per}
			for k := 0; k < per; k++ {
				t := fmt.Sprintf("t%02d", (d+k)%40)
				f.Value = append(f.Value, t...)
				found := false
				for ti := range f.Toks {
					if f.Toks[ti].Term == t {
						f.Toks[ti].Freq++
						f.Toks[ti].Locs = append(f.Toks[ti].Locs, model.Loc{Pos: uint64(k + 1), Start: uint64(4 * k), End: uint64(4*k + 3)})
						found = true
					}
				}
				if !found {
					f.Toks = append(f.Toks, model.Tok{Term: t, Freq: 1, Locs: []model.Loc{{Pos: uint64(k + 1), Start: uint64(4 * k), End: uint64(4*k + 3)}}})
				}
			}
			b.Docs = append(b.Docs, model.Doc{ID: fmt.Sprintf("%sr%03d", prefix, d), Fields: []model.FieldInst{f}})
		}
		return b
	case "rejected":
		b := model.Gen(rng, "small", o)
		if len(b.Docs) > 0 {
			d := rng.Intn(len(b.Docs))
			b.Docs[d].Fields = append(b.Docs[d].Fields, model.FieldInst{Name: rejectField, Type: 't', Stored: true, Value: []byte("x"), Len: 1, Toks: []model.Tok{{Term: "x", Freq: 1}}})
		}
		return b
	default:
		return model.Gen(rng, "small", o)
	}
}

// drawHistory draws 8..14 kinds; adversarial neighbours are forced by
// construction: every kind follows every other kind over the cases.
func drawHistory(rng *rand.Rand, i int) []string {
	if i%80 == 13 {
		// ordinary batches right after a very large one
		return []string{"small", "giant", "small", "one", "syn", "giant", "mid", "dv"}
	}
	if i%20 == 7 {
		// same document count, growing documents, each followed by a one-document batch
		return []string{"ramp10", "ramp10", "ramp13", "one", "ramp10", "ramp10", "ramp16", "one", "ramp10", "ramp10", "ramp19", "one", "ramp10", "ramp10", "ramp115", "one", "small"}
	}
	n := 8 + rng.Intn(7)
	h := make([]string, 0, n)
	// a forced ordered pair derived from the case index, then random kinds
	a := histKinds[i%len(histKinds)]
	b := histKinds[(i/len(histKinds))%len(histKinds)]
	h = append(h, a, b)
	for len(h) < n {
		h = append(h, histKinds[rng.Intn(len(histKinds))])
	}
	return h
}

// runHistory executes one history on the calling goroutine. r collects
// violations; returns number of builds done and how many ran on a recycled builder.
func runHistory(c *Ctx, r *oracle.Report, id string, rng *rand.Rand, kinds []string, batches []*model.Batch, mode uint32, countPool bool) {
	prev := "start"
	images := map[int][]byte{}
	written := map[int]uint64{}
	defer func() {
		if countPool {
			compareWithFreshBuilder(r, id, kinds, batches, images, written)
		}
	}()
	// the segment of the previous build stays alive during the next build and must
	// not change under it: its image is taken again afterwards
	var held segment.Segment
	var heldImg []byte
	var heldTag string
	recheckHeld := func(after string) {
		if held == nil {
			return
		}
		var buf bytes.Buffer
		if _, err := writeTo(held, &buf); err != nil || !bytes.Equal(buf.Bytes(), heldImg) {
			r.Fail("earlier-segment-changed", "%s: its image differs after %s was built (err %v, %d vs %d bytes)", heldTag, after, err, buf.Len(), len(heldImg))
		}
		r.Inc("earlier_segments_rechecked_after_a_later_build", 1)
		held.Close()
		held = nil
	}
	defer recheckHeld("the end of the history")
	for k, b := range batches {
		tag := fmt.Sprintf("%s/build%d(%s after %s)", id, k, kinds[k], prev)
		var newBefore int64
		if countPool {
			newBefore, _ = zx.PoolStats()
		}
		guard(r, tag, func() {
			seg, _, err := zx.Build(b)
			if kinds[k] == "rejected" && len(b.Docs) > 0 {
				if err == nil {
					r.Fail("validator-ignored", "%s: the validator rejected a field but New succeeded", tag)
					seg.Close()
				} else if !errors.Is(err, errRejected) {
					r.Fail("validator-other-error", "%s: New returned %v, want the validator's error", tag, err)
				}
				r.Inc("builds_rejected", 1)
				return
			}
			if err != nil {
				r.Fail("build-err", "%s: New: %v", tag, err)
				return
			}
			recheckHeld(tag)
			keep := false
			defer func() {
				if !keep {
					seg.Close()
				}
			}()
			if countPool && !VecBuild {
				// (in the vectors flavour a live segment keeps native indexes open, which the
				// engine monitor of the per-build checks would report)
				var buf bytes.Buffer
				if _, err := writeTo(seg, &buf); err == nil {
					defer func() { held, heldImg, heldTag, keep = seg, buf.Bytes(), tag, true }()
				}
			}
			if countPool && byteComparable(b) {
				var buf bytes.Buffer
				if _, err := writeTo(seg, &buf); err == nil {
					images[k] = buf.Bytes()
					if ds, ok := seg.(segment.DiskStatsReporter); ok {
						written[k] = ds.BytesWritten()
					}
				}
			}
			m := model.Build(b)
			if !countPool {
				// concurrent builders also emit their images at the same time: each image ends
				// with its own footer
				var buf bytes.Buffer
				if _, err := writeTo(seg, &buf); err != nil {
					r.Fail("writeto-err", "%s: WriteTo: %v", tag, err)
				} else {
					checkFileFooter(r, tag+" (image emitted while other goroutines build and emit)", buf.Bytes(), m.NumDocs, mode)
				}
			}
			if kinds[k] == "giant" {
				oracle.CheckStored(r, tag, seg, m, 1)
				return
			}
			oracle.CheckPostings(r, tag, seg, m, oracle.PostOpts{ChunkMode: mode, AbsentFields: absentFields, AbsentTerms: absentTerms})
			oracle.CheckStored(r, tag, seg, m, 2)
			oracle.CheckIDs(r, tag, seg, m, nil)
			oracle.CheckDocValues(r, []oracle.DVTarget{{Tag: tag, Seg: seg, M: m}}, rng, uint64(zx.DVChunk()), []string{"zz_absent"})
			oracle.CheckThesaurus(r, tag, seg, m, oracle.ThesOpts{UnknownNames: []string{"nothes", "th1", "th2", "syn.a", "Σsyn"}, UnknownTerms: []string{"unk", "car"}})
			if VecBuild {
				checkVectors(c, tag, seg, m, rng)
			}
		})
		if countPool {
			newAfter, _ := zx.PoolStats()
			if newAfter == newBefore {
				r.Inc("builds_on_recycled_builder", 1)
			} else {
				r.Inc("builds_on_fresh_builder", 1)
			}
		}
		r.Inc("builds", 1)
		r.Inc("pair_"+prev+"_"+kinds[k], 1)
		prev = kinds[k]
	}
}

// C10 sequential: one goroutine, maximal reuse of the pooled builder.
func c10seq(c *Ctx) {
	installValidator()
	n := c.N(600, 8000)
	pairs := map[string]bool{}
	for i := 0; i < n; i++ {
		if !c.Mine(i) {
			continue
		}
		rng := c.Rng(i)
		kinds := drawHistory(rng, i)
		mode := modeFor(i, rng)
		var batches []*model.Batch
		fp := uint64(0)
		for k, kind := range kinds {
			b := histBatch(rng, kind, fmt.Sprintf("h%d-", k))
			batches = append(batches, b)
			fp = fp*131 + b.Fingerprint()
		}
		id := fmt.Sprintf("h%d", i)
		if !c.Case(id, map[string]interface{}{"history": kinds, "mode": mode, "fp": fpString(fp)}) {
			continue
		}
		zx.SetChunkMode(mode)
		// doc-value chunk size: small ones give "large" batches many chunks
		dvc := []uint32{1024, 2, 1, 5, 1024, 3, 16}[(i/len(histKinds))%7]
		zx.SetDVChunk(dvc)
		runHistory(c, c.R, id, rng, kinds, batches, mode, true)
		zx.SetDVChunk(1024)
		for k := 1; k < len(kinds); k++ {
			pairs[kinds[k-1]+">"+kinds[k]] = true
		}
		c.Distinct(fp)
		c.Sample(map[string]interface{}{"case": id, "history": kinds, "mode": mode})
		c.End()
	}
	c.R.Inc("ordered_kind_pairs_in_shard", int64(len(pairs)))
}

// C10 concurrent: G goroutines build their histories at the same time
// (race flavour). One chunk mode per case: process-global knobs are only
// written between phases.
func c10conc(c *Ctx) {
	installValidator()
	n := c.N(48, 480)
	for i := 0; i < n; i++ {
		if !c.Mine(i) {
			continue
		}
		rng := c.Rng(i)
		g := []int{4, 16, 8}[i%3]
		procs := []int{2, 16, 4}[(i/3)%3]
		mode := modeFor(i, rng)
		type gh struct {
			kinds   []string
			batches []*model.Batch
			rng     *rand.Rand
		}
		var hs []gh
		fp := uint64(0)
		for j := 0; j < g; j++ {
			kinds := drawHistory(rng, i*31+j)
			if len(kinds) > 6 {
				kinds = kinds[:6]
			}
			var batches []*model.Batch
			for k, kind := range kinds {
				b := histBatch(rng, kind, fmt.Sprintf("g%d-%d-", j, k))
				batches = append(batches, b)
				fp = fp*131 + b.Fingerprint()
			}
			hs = append(hs, gh{kinds, batches, rand.New(rand.NewSource(rng.Int63()))})
		}
		id := fmt.Sprintf("c%d", i)
		if !c.Case(id, map[string]interface{}{"goroutines": g, "gomaxprocs": procs, "mode": mode, "fp": fpString(fp)}) {
			continue
		}
		zx.SetChunkMode(mode)
		old := runtime.GOMAXPROCS(procs)
		var wg sync.WaitGroup
		start := make(chan struct{})
		for j := range hs {
			wg.Add(1)
			go func(j int) {
				defer wg.Done()
				<-start
				runHistory(c, c.R, fmt.Sprintf("%s/g%d", id, j), hs[j].rng, hs[j].kinds, hs[j].batches, mode, false)
			}(j)
		}
		close(start)
		wg.Wait()
		runtime.GOMAXPROCS(old)
		c.R.Inc("concurrent_rounds", 1)
		c.R.Inc(fmt.Sprintf("concurrent_rounds_g%d", g), 1)
		c.Distinct(fp)
		c.Sample(map[string]interface{}{"case": id, "goroutines": g, "gomaxprocs": procs, "first_history": hs[0].kinds})
		c.End()
	}
}

// emptyPairs: a definition without synonyms — either terms that map to
// nothing or (equivalence group analysed to nothing) no pair at all.
func emptyPairs(rng *rand.Rand) []model.SynPair {
	if rng.Intn(2) == 0 {
		return nil
	}
	return []model.SynPair{{Term: "lonely"}, {Term: "a"}}
}

// byteComparable: batches without synonym definitions and vectors. Only the
// inverted-index section writes anything for them, so everything in front of
// the per-field records is a function of the batch (the sections are persisted
// in map order, which moves their bytes around when several of them write).
func byteComparable(b *model.Batch) bool {
	for i := range b.Docs {
		if len(b.Docs[i].Syn) > 0 || len(b.Docs[i].Vecs) > 0 {
			return false
		}
	}
	return true
}

// fieldRecordsStart: offset of the first per-field record (the records and the
// fields index behind them list the sections in map order).
func fieldRecordsStart(img []byte) (uint64, bool) {
	f, err := parseFooter(img)
	if err != nil || f.SectionsIdx >= uint64(len(img)) {
		return 0, false
	}
	n, w := binary.Uvarint(img[f.SectionsIdx:])
	if w <= 0 {
		return 0, false
	}
	start := f.SectionsIdx
	for k := uint64(0); k < n; k++ {
		o := f.SectionsIdx + uint64(w) + 8*k
		if o+8 > uint64(len(img)) {
			return 0, false
		}
		if a := binary.BigEndian.Uint64(img[o:]); a < start {
			start = a
		}
	}
	return start, true
}

// compareWithFreshBuilder: "determined by the batch and the chunk mode alone",
// byte for byte. The last builds of the history are repeated on a builder that
// has never been used (two collections empty the pool; the pool hook confirms
// that a new builder was made) and the two images are compared: same length,
// same footer offsets, same bytes in front of the per-field records.
func compareWithFreshBuilder(r *oracle.Report, id string, kinds []string, batches []*model.Batch, images map[int][]byte, written map[int]uint64) {
	done := 0
	for k := len(batches) - 1; k >= 0; k-- {
		img, ok := images[k]
		if !ok {
			continue
		}
		// the last three comparable builds, and every empty batch
		if done >= 3 && len(batches[k].Docs) > 0 {
			continue
		}
		done++
		runtime.GC()
		runtime.GC()
		before, _ := zx.PoolStats()
		var ref []byte
		var refWritten uint64
		guard(r, id+" reference build", func() {
			seg, _, err := zx.Build(batches[k])
			if err != nil {
				return
			}
			defer seg.Close()
			var buf bytes.Buffer
			if _, err := writeTo(seg, &buf); err == nil {
				ref = buf.Bytes()
				if ds, ok := seg.(segment.DiskStatsReporter); ok {
					refWritten = ds.BytesWritten()
				}
			}
		})
		after, _ := zx.PoolStats()
		if ref == nil || after == before {
			r.Inc("reference_builds_not_on_a_fresh_builder", 1)
			continue
		}
		tag := fmt.Sprintf("%s/build%d(%s)", id, k, kinds[k])
		fa, e1 := parseFooter(img)
		fb, e2 := parseFooter(ref)
		sa, ok1 := fieldRecordsStart(img)
		sb, ok2 := fieldRecordsStart(ref)
		switch {
		case e1 != nil || e2 != nil || !ok1 || !ok2:
			r.Fail("trace-unparsable", "%s: image built in the history or on a fresh builder has no parsable footer / fields index", tag)
		case len(img) != len(ref):
			r.Fail("trace-size", "%s: %d bytes when built in this history, %d bytes when built on a fresh builder", tag, len(img), len(ref))
		case fa.NumDocs != fb.NumDocs || fa.StoredIdx != fb.StoredIdx || fa.SectionsIdx != fb.SectionsIdx || fa.DVOff != fb.DVOff || fa.ChunkMode != fb.ChunkMode || sa != sb:
			r.Fail("trace-footer", "%s: footer %+v (records at %d) when built in this history, %+v (records at %d) on a fresh builder", tag, fa, sa, fb, sb)
		case !bytes.Equal(img[:sa], ref[:sb]):
			d := 0
			for d < int(sa) && img[d] == ref[d] {
				d++
			}
			r.Fail("trace-bytes", "%s: the image built in this history differs from the one built on a fresh builder at byte %d of %d", tag, d, sa)
		}
		if w, ok := written[k]; ok && w != refWritten {
			r.Fail("trace-stat", "%s/build%d(%s): BytesWritten() %d when built in this history, %d on a fresh builder", id, k, kinds[k], w, refWritten)
		}
		r.Inc("images_compared_with_fresh_builder", 1)
		r.Inc("image_bytes_compared_with_fresh_builder", int64(sa))
	}
}
