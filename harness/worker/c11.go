package main

import (
	"bytes"
	"fmt"
	"math/rand"
	"os"
	"runtime"
	"sync"
	"sync/atomic"

	segment "github.com/blevesearch/scorch_segment_api/v2"

	"verif/harness/model"
	"verif/harness/oracle"
	"verif/harness/zx"
)

func init() { workloads["C11"] = c11 }

type c11tgt struct {
	name string
	seg  segment.Segment
	m    *model.Seg
}

// stableVisit: the visitor-stability monitor. Every value handed to the
// callback is copied on entry, the goroutine yields, and the bytes are
// compared again on exit — and with the model.
func stableVisit(r *oracle.Report, t c11tgt, rng *rand.Rand, yields int) {
	if t.m.NumDocs == 0 {
		return
	}
	d := uint64(rng.Int63n(int64(t.m.NumDocs)))
	exp := t.m.Stored[d]
	k := 0
	err := t.seg.VisitStoredFields(d, func(field string, typ byte, value []byte, pos []uint64) bool {
		cp := append([]byte(nil), value...)
		cpp := append([]uint64(nil), pos...)
		for y := 0; y < yields; y++ {
			runtime.Gosched()
		}
		if !bytes.Equal(cp, value) || !eqU64(cpp, pos) {
			r.Fail("visitor-bytes-changed", "%s: doc %d field %q: bytes handed to the visitor changed during the callback", t.name, d, field)
		}
		if k == 0 {
			if field != "_id" || string(cp) != t.m.IDs[d] {
				r.Fail("conc-stored", "%s: doc %d first callback (%q,%q), want _id=%q", t.name, d, field, cp, t.m.IDs[d])
			}
		} else if k-1 < len(exp) {
			// grouped by field in ascending field order, input order within a field
			e := exp[k-1]
			if field != e.Field || typ != e.Type || !bytes.Equal(cp, e.Value) || !eqU64(cpp, e.AP) {
				r.Fail("conc-stored", "%s: doc %d callback %d: got (%q,%c,%s,%v) want (%q,%c,%s,%v)", t.name, d, k, field, typ, shortB(cp), cpp, e.Field, e.Type, shortB(e.Value), e.AP)
			}
		} else {
			r.Fail("conc-stored", "%s: doc %d: extra callback %d (%q)", t.name, d, k, field)
		}
		k++
		r.Inc("visitor_callbacks_monitored", 1)
		return true
	})
	if err != nil {
		r.Fail("conc-stored-err", "%s: VisitStoredFields(%d): %v", t.name, d, err)
	} else if k != len(exp)+1 {
		r.Fail("conc-stored", "%s: doc %d: %d callbacks, want %d", t.name, d, k, len(exp)+1)
	}
}

func shortB(b []byte) string {
	if len(b) > 24 {
		return fmt.Sprintf("%q…(%d)", b[:24], len(b))
	}
	return fmt.Sprintf("%q", b)
}

// stopVisit stops after `after` callbacks (1 = right after _id).
func stopVisit(r *oracle.Report, t c11tgt, rng *rand.Rand, after int) {
	if t.m.NumDocs == 0 {
		return
	}
	d := uint64(rng.Int63n(int64(t.m.NumDocs)))
	total := len(t.m.Stored[d]) + 1
	if after > total {
		after = total
	}
	n := 0
	var first []byte
	err := t.seg.VisitStoredFields(d, func(field string, typ byte, value []byte, pos []uint64) bool {
		if n == 0 {
			first = append([]byte(nil), value...)
		}
		n++
		return n < after
	})
	if err != nil || n != after || string(first) != t.m.IDs[d] {
		r.Fail("conc-earlystop", "%s: doc %d stop after %d: %d callbacks, err %v, id %q want %q", t.name, d, after, n, err, first, t.m.IDs[d])
	}
	r.Inc("early_stop_visits", 1)
}

// blockVisit blocks inside the first callbacks until other goroutines have
// made progress (logical steps, not wall-clock).
func blockVisit(r *oracle.Report, t c11tgt, rng *rand.Rand, progress *int64) {
	if t.m.NumDocs == 0 {
		return
	}
	d := uint64(rng.Int63n(int64(t.m.NumDocs)))
	exp := t.m.Stored[d]
	k := 0
	err := t.seg.VisitStoredFields(d, func(field string, typ byte, value []byte, pos []uint64) bool {
		cp := append([]byte(nil), value...)
		start := atomic.LoadInt64(progress)
		for y := 0; y < 2000 && atomic.LoadInt64(progress) < start+3; y++ {
			runtime.Gosched()
		}
		if atomic.LoadInt64(progress) >= start+3 {
			r.Inc("blocked_visitor_overlaps", 1)
		}
		if !bytes.Equal(cp, value) {
			r.Fail("visitor-bytes-changed", "%s: doc %d field %q: bytes changed while the visitor was blocked", t.name, d, field)
		}
		if k > 0 && k-1 < len(exp) && !bytes.Equal(cp, exp[k-1].Value) {
			r.Fail("conc-stored", "%s: doc %d callback %d (blocked visitor): value %s want %s", t.name, d, k, shortB(cp), shortB(exp[k-1].Value))
		}
		k++
		return true
	})
	if err != nil || k != len(exp)+1 {
		r.Fail("conc-stored", "%s: doc %d (blocked visitor): %d callbacks, err %v, want %d", t.name, d, k, err, len(exp)+1)
	}
}

func c11(c *Ctx) {
	rounds := c.N(40, 400)
	if c.Flavour == "plain" {
		rounds = c.N(160, 2000)
	}
	for i := 0; i < rounds; i++ {
		if !c.Mine(i) {
			continue
		}
		rng := c.Rng(i)
		g := []int{4, 8, 32, 8}[i%4]
		procs := []int{1, 2, 16, 16}[(i/4)%4]
		pre := []int{0, 1, 3}[(i/2)%3] // early-terminated visits before the concurrent phase
		mode := modeFor(i, rng)
		a := model.Gen(rng, []string{"small", "mid", "stored", "deep"}[i%4], model.GenOpts{Syn: true, Vec: VecBuild, NoBig: i%4 != 2, IDPrefix: "a-", VecSalt: 1 + i%997})
		b := model.Gen(rng, []string{"small", "one", "mid"}[rng.Intn(3)], model.GenOpts{Syn: rng.Intn(2) == 0, Vec: VecBuild && rng.Intn(2) == 0, NoBig: true, IDPrefix: "b-", VecSalt: 1 + i%997})
		forceDV(a, rng)
		ma, mb := model.Build(a), model.Build(b)
		drops := []map[uint32]bool{randDrops(rng, ma.NumDocs, 3), randDrops(rng, mb.NumDocs, 3)}
		mm, wantNums := model.Merge([]*model.Seg{ma, mb}, drops)
		fp := a.Fingerprint() ^ b.Fingerprint()<<1
		id := fmt.Sprintf("r%d", i)
		if !c.Case(id, map[string]interface{}{"goroutines": g, "gomaxprocs": procs, "pre_early_stops": pre, "mode": mode, "docs": []int{len(a.Docs), len(b.Docs)}, "fp": fpString(fp)}) {
			continue
		}
		zx.SetChunkMode(mode)
		// small doc-value chunks: concurrent visitors keep loading different chunks
		zx.SetDVChunk([]uint32{1024, 2, 1, 3, 1024, 5}[(i/2)%6])
		c11round(c, id, rng, g, procs, pre, a, b, ma, mb, mm, drops, wantNums)
		zx.SetDVChunk(1024)
		c.Distinct(fp)
		c.Sample(map[string]interface{}{"case": id, "goroutines": g, "gomaxprocs": procs, "pre_early_stops": pre})
		c.End()
	}
}

func c11round(c *Ctx, id string, rng *rand.Rand, g, procs, pre int, a, b *model.Batch, ma, mb, mm *model.Seg, drops []map[uint32]bool, wantNums [][]uint64) {
	r := c.R
	var ts []c11tgt
	var paths []string
	defer func() {
		for _, t := range ts {
			t.seg.Close()
		}
		for _, p := range paths {
			os.Remove(p)
		}
	}()
	ok := true
	guard(r, id+" setup", func() {
		sa, _, err := zx.Build(a)
		if err != nil {
			r.Fail("build-err", "%s: %v", id, err)
			ok = false
			return
		}
		ts = append(ts, c11tgt{id + "/A-mem", sa, ma})
		p := c.Scratch.Path("c11")
		paths = append(paths, p)
		if err := zx.Persist(sa, p); err != nil {
			r.Fail("persist-err", "%s: %v", id, err)
			ok = false
			return
		}
		oa, err := zx.Open(p)
		if err != nil {
			r.Fail("open-err", "%s: %v", id, err)
			ok = false
			return
		}
		ts = append(ts, c11tgt{id + "/A-mmap", oa, ma})
		sb, _, err := zx.Build(b)
		if err != nil {
			r.Fail("build-err", "%s: %v", id, err)
			ok = false
			return
		}
		ts = append(ts, c11tgt{id + "/B-mem", sb, mb})
	})
	if !ok {
		return
	}
	// history dimension: early-terminated visits before the concurrent phase
	for k := 0; k < pre; k++ {
		stopVisit(r, ts[k%len(ts)], rng, 1)
	}
	_, visitNew0 := zx.PoolStats()
	old := runtime.GOMAXPROCS(procs)
	defer runtime.GOMAXPROCS(old)
	var progress int64
	var wg sync.WaitGroup
	start := make(chan struct{})
	nops := 14
	for j := 0; j < g; j++ {
		grng := rand.New(rand.NewSource(rng.Int63()))
		wg.Add(1)
		go func(j int, grng *rand.Rand) {
			defer wg.Done()
			<-start
			// private recycled objects of this goroutine
			for k := 0; k < nops; k++ {
				t := ts[grng.Intn(len(ts))]
				op := grng.Intn(12)
				if VecBuild && grng.Intn(4) == 0 {
					op = 12
				}
				if j == 0 && k == 0 {
					op = 11 // one merge per round for sure
				}
				tag := fmt.Sprintf("%s g%d op%d", t.name, j, k)
				guard(r, tag, func() {
					switch op {
					case 0:
						oracle.CheckPostings(r, tag, t.seg, t.m, oracle.PostOpts{AbsentFields: absentFields[:1], AbsentTerms: absentTerms[:2], MaxTerms: 8})
						r.Inc("op_postings", 1)
					case 1:
						oracle.CheckStored(r, tag, t.seg, t.m, 2)
						r.Inc("op_stored_full", 1)
					case 2, 3:
						stableVisit(r, t, grng, 1+grng.Intn(3))
						r.Inc("op_stable_visit", 1)
					case 4, 5:
						stopVisit(r, t, grng, 1)
						r.Inc("op_stop_at_id", 1)
					case 6:
						stopVisit(r, t, grng, 2+grng.Intn(3))
						r.Inc("op_stop_later", 1)
					case 7:
						blockVisit(r, t, grng, &progress)
						r.Inc("op_block_visit", 1)
					case 8:
						oracle.CheckIDs(r, tag, t.seg, t.m, nil)
						r.Inc("op_ids", 1)
					case 9:
						oracle.CheckDocValues(r, []oracle.DVTarget{{Tag: tag, Seg: t.seg, M: t.m}}, grng, uint64(zx.DVChunk()), nil)
						r.Inc("op_docvalues", 1)
					case 10:
						oracle.CheckThesaurus(r, tag, t.seg, t.m, oracle.ThesOpts{UnknownNames: []string{"nothes"}, UnknownTerms: []string{"unk"}})
						oracle.CheckDictionary(r, tag, t.seg, t.m, grng, true)
						r.Inc("op_thesaurus_dict", 1)
					case 12:
						checkVectors(c, tag, t.seg, t.m, grng)
						r.Inc("op_vector_search", 1)
					case 11:
						// the shared segments as inputs of a merge
						out := c.Scratch.Path("c11m")
						defer os.Remove(out)
						in0 := ts[grng.Intn(2)] // A in memory or mmap
						got, _, err := zx.Merge(segs(in0.seg, ts[2].seg), zx.Drops(drops, nil), out, nil, nil)
						if err != nil {
							r.Fail("conc-merge-err", "%s: Merge: %v", tag, err)
							return
						}
						for k := range wantNums {
							if k >= len(got) || !eqU64(got[k], wantNums[k]) {
								r.Fail("conc-merge-nums", "%s: renumbering of input %d differs from the model", tag, k)
							}
						}
						o, err := zx.Open(out)
						if err != nil {
							r.Fail("conc-merge-open", "%s: %v", tag, err)
							return
						}
						defer o.Close()
						oracle.CheckPostings(r, tag+"/merged", o, mm, oracle.PostOpts{MaxTerms: 6})
						oracle.CheckStored(r, tag+"/merged", o, mm, 1)
						oracle.CheckThesaurus(r, tag+"/merged", o, mm, oracle.ThesOpts{})
						if VecBuild {
							checkVectors(c, tag+"/merged", o, mm, grng)
						}
						r.Inc("op_merge", 1)
					}
				})
				atomic.AddInt64(&progress, 1)
			}
		}(j, grng)
	}
	close(start)
	wg.Wait()
	_, visitNew1 := zx.PoolStats()
	r.Inc("scratch_objects_fresh", visitNew1-visitNew0)
	r.Inc("concurrent_ops", int64(g*nops))
	r.Inc("concurrent_rounds", 1)
	r.Inc("cold_cache_rounds", 1) // fresh segments every round: lazy FST / thesaurus fills are contended
	r.Inc(fmt.Sprintf("rounds_gomaxprocs_%d", procs), 1)
}
