// Package stub materialises index.Document values from a batch spec.  Every
// build must get freshly materialised documents: zapx's builder (through
// TokenFrequencies.MergeAll) mutates the token maps it is given.
package stub

import (
	index "github.com/blevesearch/bleve_index_api"

	"verif/harness/model"
)

type field struct {
	name  string
	typ   byte
	value []byte
	ap    []uint64
	opts  index.FieldIndexingOptions
	alen  int
	freqs index.TokenFrequencies
}

func (f *field) Name() string                                { return f.name }
func (f *field) Value() []byte                               { return f.value }
func (f *field) ArrayPositions() []uint64                    { return f.ap }
func (f *field) EncodedFieldType() byte                      { return f.typ }
func (f *field) Analyze()                                    {}
func (f *field) Options() index.FieldIndexingOptions         { return f.opts }
func (f *field) AnalyzedLength() int                         { return f.alen }
func (f *field) NumPlainTextBytes() uint64                   { return 0 }
func (f *field) Compose(string, int, index.TokenFrequencies) {}

// AnalyzedTokenFrequencies returns the same map on every call, as bleve's
// document fields do.
func (f *field) AnalyzedTokenFrequencies() index.TokenFrequencies { return f.freqs }

type synField struct {
	name  string
	pairs []model.SynPair
	// noisy: the field also reports analysed tokens (legal for an index.Field;
	// a synonym field's tokens never reach the inverted index)
	noisy bool
}

func noise() index.TokenFrequencies {
	tf := &index.TokenFreq{Term: []byte("zz-leaked-token")}
	tf.SetFrequency(2)
	tf.Locations = []*index.TokenLocation{{Start: 0, End: 3, Position: 1}, {Start: 4, End: 7, Position: 2}}
	return index.TokenFrequencies{"zz-leaked-token": tf}
}

func (f *synField) Name() string                        { return f.name }
func (f *synField) Value() []byte                       { return nil }
func (f *synField) ArrayPositions() []uint64            { return nil }
func (f *synField) EncodedFieldType() byte              { return 0 }
func (f *synField) Analyze()                            {}
func (f *synField) Options() index.FieldIndexingOptions { return 0 }
func (f *synField) AnalyzedLength() int {
	if f.noisy {
		return 2
	}
	return 0
}
func (f *synField) NumPlainTextBytes() uint64 { return 0 }
func (f *synField) AnalyzedTokenFrequencies() index.TokenFrequencies {
	if f.noisy {
		return noise()
	}
	return nil
}
func (f *synField) IterateSynonyms(visitor func(term string, synonyms []string)) {
	for _, p := range f.pairs {
		visitor(p.Term, append([]string(nil), p.Syns...))
	}
}

// vecField implements index.VectorField (declared under the `vectors` tag in
// bleve_index_api; the method set is all that matters).
type vecField struct {
	name   string
	vec    []float32
	dims   int
	metric string
	opt    string
	noisy  bool // see synField.noisy
}

func (f *vecField) Name() string                        { return f.name }
func (f *vecField) Value() []byte                       { return nil }
func (f *vecField) ArrayPositions() []uint64            { return nil }
func (f *vecField) EncodedFieldType() byte              { return 'v' }
func (f *vecField) Analyze()                            {}
func (f *vecField) Options() index.FieldIndexingOptions { return index.IndexField }
func (f *vecField) AnalyzedLength() int {
	if f.noisy {
		return 2
	}
	return 0
}
func (f *vecField) NumPlainTextBytes() uint64 { return 0 }
func (f *vecField) AnalyzedTokenFrequencies() index.TokenFrequencies {
	if f.noisy {
		return noise()
	}
	return nil
}
func (f *vecField) Vector() []float32         { return f.vec }
func (f *vecField) Dims() int                 { return f.dims }
func (f *vecField) Similarity() string        { return f.metric }
func (f *vecField) IndexOptimizedFor() string { return f.opt }

type doc struct {
	id        string
	fields    []index.Field
	composite []index.CompositeField
}

func (d *doc) ID() string                { return d.id }
func (d *doc) Size() int                 { return 0 }
func (d *doc) HasComposite() bool        { return len(d.composite) > 0 }
func (d *doc) NumPlainTextBytes() uint64 { return 0 }
func (d *doc) AddIDField()               {}
func (d *doc) StoredFieldsBytes() uint64 { return 0 }
func (d *doc) Indexed() bool             { return true }
func (d *doc) VisitFields(v index.FieldVisitor) {
	for _, f := range d.fields {
		v(f)
	}
}
func (d *doc) VisitComposite(v index.CompositeFieldVisitor) {
	for _, f := range d.composite {
		v(f)
	}
}

type synDoc struct {
	doc
}

func (d *synDoc) VisitSynonymFields(v index.SynonymFieldVisitor) {
	for _, f := range d.fields {
		if sf, ok := f.(index.SynonymField); ok {
			v(sf)
		}
	}
}

// geoField is a field that is also an index.GeoShapeField.
type geoField struct {
	*field
	shape []byte
}

func (g *geoField) GeoShape() (index.GeoJSON, error) { return nil, nil }
func (g *geoField) EncodedShape() []byte             { return g.shape }

func mkAnyField(fi *model.FieldInst) index.Field {
	f := mkField(fi)
	if fi.Shape != nil {
		return &geoField{field: f, shape: append([]byte(nil), fi.Shape...)}
	}
	return f
}

func mkField(fi *model.FieldInst) *field {
	f := &field{
		name:  fi.Name,
		typ:   fi.Type,
		value: append([]byte(nil), fi.Value...),
		alen:  fi.Len,
	}
	if len(fi.AP) > 0 {
		f.ap = append([]uint64(nil), fi.AP...)
	}
	f.opts = index.IndexField
	if fi.Stored {
		f.opts |= index.StoreField
	}
	if fi.DV {
		f.opts |= index.DocValues
	}
	if fi.TV {
		f.opts |= index.IncludeTermVectors
	}
	if len(fi.Toks) == 0 && fi.NilFreqs {
		return f
	}
	f.freqs = make(index.TokenFrequencies, len(fi.Toks))
	for _, t := range fi.Toks {
		tf := &index.TokenFreq{Term: []byte(t.Term)}
		tf.SetFrequency(t.Freq)
		for _, l := range t.Locs {
			tl := &index.TokenLocation{
				Field:    l.Field,
				Start:    int(l.Start),
				End:      int(l.End),
				Position: int(l.Pos),
			}
			if len(l.AP) > 0 {
				tl.ArrayPositions = append([]uint64(nil), l.AP...)
			}
			tf.Locations = append(tf.Locations, tl)
		}
		f.freqs[t.Term] = tf
	}
	return f
}

func idField(id string, dv bool) *field {
	tf := &index.TokenFreq{Term: []byte(id)}
	tf.SetFrequency(1)
	opts := index.IndexField | index.StoreField
	if dv {
		opts |= index.DocValues
	}
	return &field{
		name:  "_id",
		typ:   't',
		value: []byte(id),
		opts:  opts,
		alen:  1,
		freqs: index.TokenFrequencies{id: tf},
	}
}

// Docs materialises fresh documents for one build.
func Docs(b *model.Batch) []index.Document {
	rv := make([]index.Document, 0, len(b.Docs))
	for i := range b.Docs {
		d := &b.Docs[i]
		sd := doc{id: d.ID}
		if !d.IDLast {
			sd.fields = append(sd.fields, idField(d.ID, d.IDDV))
		}
		for j := range d.Composite {
			sd.composite = append(sd.composite, mkField(&d.Composite[j]))
		}
		for j := range d.Fields {
			sd.fields = append(sd.fields, mkAnyField(&d.Fields[j]))
		}
		for _, sf := range d.Syn {
			sd.fields = append(sd.fields, &synField{name: sf.Thes, pairs: sf.Pairs, noisy: (i+len(sf.Pairs))%3 == 0})
		}
		for _, vf := range d.Vecs {
			sd.fields = append(sd.fields, &vecField{name: vf.Name, vec: append([]float32(nil), vf.Vec...),
				dims: vf.Dims, metric: vf.Metric, opt: vf.Opt, noisy: (i+len(vf.Vec))%3 == 0})
		}
		if d.IDLast {
			sd.fields = append(sd.fields, idField(d.ID, d.IDDV))
		}
		if len(d.Syn) > 0 {
			rv = append(rv, &synDoc{sd})
		} else {
			x := sd
			rv = append(rv, &x)
		}
	}
	return rv
}
