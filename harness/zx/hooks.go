package zx

import zap "github.com/blevesearch/zapx/v16"

// PoolStats: fresh allocations of the builder pool / stored-field scratch pool (hook, tag verif).
func PoolStats() (interimNew, visitCtxNew int64) { return zap.VerifPoolStats() }

// SetValidator installs the experimental field validator (process-global).
func SetValidator(f func(name string) error) {
	if f == nil {
		zap.ValidateDocFields = func(field Field) error { return nil }
		return
	}
	zap.ValidateDocFields = func(field Field) error { return f(field.Name()) }
}

// SetMergeBuffer sets the merge output buffer size (process-global).
func SetMergeBuffer(n int) { zap.DefaultFileMergerBufferSize = n }

// SynCacheLen: number of thesauri held by the segment's synonym cache (hook, tag verif).
func SynCacheLen(s interface{}) int { return zap.VerifSynCacheLen(s) }
