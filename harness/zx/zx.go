// Package zx is the thin layer between the harness and the zapx API.
package zx

import (
	"fmt"
	"os"
	"path/filepath"
	"sync/atomic"

	"github.com/RoaringBitmap/roaring/v2"
	segment "github.com/blevesearch/scorch_segment_api/v2"
	zap "github.com/blevesearch/zapx/v16"

	"verif/harness/model"
	"verif/harness/stub"
)

var plugin = &zap.ZapPlugin{}

// SetChunkMode sets the posting-details chunk mode used by New and Merge.
// Only call while no zapx call is running.
func SetChunkMode(m uint32) { zap.DefaultChunkMode = m }

// SetDVChunk sets the doc-value chunk size (zap.LegacyChunkMode).
// Only call while no zapx call is running, and never between writing and
// reading a segment.
func SetDVChunk(m uint32) { zap.LegacyChunkMode = m }

func DVChunk() uint32 { return zap.LegacyChunkMode }

// Build builds an in-memory segment from freshly materialised documents.
func Build(b *model.Batch) (segment.Segment, uint64, error) {
	return plugin.New(stub.Docs(b))
}

// Open mmap-opens a segment file.
func Open(path string) (segment.Segment, error) { return plugin.Open(path) }

// Persist writes an in-memory segment to path.
func Persist(s segment.Segment, path string) error {
	u, ok := s.(segment.UnpersistedSegment)
	if !ok {
		return fmt.Errorf("segment %T cannot be persisted", s)
	}
	return u.Persist(path)
}

// Merge merges segments into path.
func Merge(segs []segment.Segment, drops []*roaring.Bitmap, path string, closeCh chan struct{}, st segment.StatsReporter) ([][]uint64, uint64, error) {
	return plugin.Merge(segs, drops, path, closeCh, st)
}

// Drops converts model drop sets to bitmaps; style selects nil vs empty
// bitmaps for "no deletions" (both are legal).
func Drops(d []map[uint32]bool, nilForEmpty []bool) []*roaring.Bitmap {
	out := make([]*roaring.Bitmap, len(d))
	for i, m := range d {
		if len(m) == 0 && (nilForEmpty == nil || nilForEmpty[i]) {
			continue
		}
		bm := roaring.New()
		for k := range m {
			bm.Add(k)
		}
		out[i] = bm
	}
	return out
}

// Scratch is a per-process scratch directory outside /repo and /verif.
type Scratch struct {
	Dir string
	n   atomic.Int64
}

func NewScratch() (*Scratch, error) {
	base := os.Getenv("VERIF_SCRATCH")
	if base == "" {
		base = os.TempDir()
	}
	d, err := os.MkdirTemp(base, "zxw-")
	if err != nil {
		return nil, err
	}
	return &Scratch{Dir: d}, nil
}

// Path returns a fresh file name.
func (s *Scratch) Path(tag string) string {
	return filepath.Join(s.Dir, fmt.Sprintf("%s-%d.zap", tag, s.n.Add(1)))
}

func (s *Scratch) Cleanup() { os.RemoveAll(s.Dir) }
