package zx

import index "github.com/blevesearch/bleve_index_api"

// Field aliases the index API's field type.
type Field = index.Field
