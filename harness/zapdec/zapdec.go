// Package zapdec is an independent decoder of the zap v16 file layout,
// written from zap.md / README.md and the format comments. It imports the
// documented sub-formats (vellum FSTs, roaring bitmaps, snappy) but never
// zapx: it is the "reader written only from the documented layout" of C09.
package zapdec

import (
	"bytes"
	"encoding/binary"
	"fmt"
	"hash/crc32"
	"math"

	"github.com/RoaringBitmap/roaring/v2"
	"github.com/RoaringBitmap/roaring/v2/roaring64"
	"github.com/blevesearch/vellum"
	"github.com/golang/snappy"
)

const (
	FooterSize    = 8 + 8 + 8 + 8 + 8 + 4 + 4 + 4
	notUninverted = math.MaxUint64
	secInverted   = 0
	secVector     = 1
	secSynonym    = 2
	enc1HitMask   = uint64(0xc000000000000000)
	enc1Hit       = uint64(0x8000000000000000)
	mask31        = uint64(0x7fffffff)
	termSeparator = 0xff
)

type Footer struct {
	NumDocs, StoredIdx, FieldsIdx, SectionsIdx, DVOff uint64
	ChunkMode, Version, CRC                           uint32
}

type Loc struct {
	FieldID         uint64
	Pos, Start, End uint64
	AP              []uint64
}

type Hit struct {
	Doc      uint64
	Freq     uint64
	NormBits uint64
	Locs     []Loc
	OneHit   bool
}

type Stored struct {
	FieldID uint64
	Type    byte
	Value   []byte
	AP      []uint64
}

type SynPair struct {
	Syn string
	Doc uint32
}

type VecSection struct {
	Opt     uint64
	IDToDoc map[int64]uint64
	NumVecs uint64
	Blob    []byte
}

type Field struct {
	Name      string
	Sections  map[uint16]uint64
	HasDict   bool
	Terms     []string         // ascending, as enumerated from the FST
	Post      map[string][]Hit // term -> hits
	HasDV     bool
	DV        map[uint64][]string // doc -> terms
	HasThes   bool
	ThesTerms []string
	Thes      map[string][]SynPair
	Vec       *VecSection
}

type Decoded struct {
	Footer Footer
	Fields []*Field // by field id; a nil entry = record absent (address 0)
	IDs    [][]byte
	Stored [][]Stored
}

type dec struct {
	mem []byte
	err error
}

func (d *dec) fail(format string, a ...interface{}) {
	if d.err == nil {
		d.err = fmt.Errorf(format, a...)
	}
}

func (d *dec) uvarint(pos uint64) (uint64, uint64) {
	if pos >= uint64(len(d.mem)) {
		d.fail("uvarint at %d beyond the data (%d bytes)", pos, len(d.mem))
		return 0, pos
	}
	v, n := binary.Uvarint(d.mem[pos:])
	if n <= 0 {
		d.fail("bad uvarint at %d", pos)
		return 0, pos
	}
	return v, pos + uint64(n)
}

func (d *dec) u64(pos uint64) uint64 {
	if pos+8 > uint64(len(d.mem)) {
		d.fail("uint64 at %d beyond the data", pos)
		return 0
	}
	return binary.BigEndian.Uint64(d.mem[pos:])
}

func (d *dec) slice(a, b uint64) []byte {
	if a > b || b > uint64(len(d.mem)) {
		d.fail("slice [%d:%d] outside the data (%d bytes)", a, b, len(d.mem))
		return nil
	}
	return d.mem[a:b]
}

// ChunkSize is the documented chunk-size rule of the chunk modes.
func ChunkSize(mode uint32, card, numDocs uint64) (uint64, error) {
	switch {
	case mode == 0:
		return 0, fmt.Errorf("chunk mode 0")
	case mode <= 1024:
		return uint64(mode), nil
	case mode == 1025:
		if card <= 1024 {
			if numDocs == 0 {
				return 0, fmt.Errorf("chunk size zero")
			}
			return numDocs, nil
		}
		return 1024, nil
	case mode == 1026:
		cs := numDocs / (card/1024 + 1)
		if cs == 0 {
			return 0, fmt.Errorf("chunk size zero")
		}
		return cs, nil
	}
	return 0, fmt.Errorf("unknown chunk mode %d", mode)
}

// ParseFooter parses the fixed-size footer.
func ParseFooter(data []byte) (Footer, error) {
	var f Footer
	if len(data) < FooterSize {
		return f, fmt.Errorf("file of %d bytes is shorter than the footer", len(data))
	}
	p := data[len(data)-FooterSize:]
	f.NumDocs = binary.BigEndian.Uint64(p[0:])
	f.StoredIdx = binary.BigEndian.Uint64(p[8:])
	f.FieldsIdx = binary.BigEndian.Uint64(p[16:])
	f.SectionsIdx = binary.BigEndian.Uint64(p[24:])
	f.DVOff = binary.BigEndian.Uint64(p[32:])
	f.ChunkMode = binary.BigEndian.Uint32(p[40:])
	f.Version = binary.BigEndian.Uint32(p[44:])
	f.CRC = binary.BigEndian.Uint32(p[48:])
	return f, nil
}

// chunked is a chunked uvarint stream: count, cumulative end offsets, data.
type chunked struct {
	ends []uint64
	data uint64 // start of the data
}

func (d *dec) chunkedAt(off uint64) *chunked {
	if off == 0 {
		return nil
	}
	n, p := d.uvarint(off)
	if n > uint64(len(d.mem)) {
		d.fail("chunk count %d at %d is absurd", n, off)
		return nil
	}
	c := &chunked{}
	for i := uint64(0); i < n; i++ {
		var e uint64
		e, p = d.uvarint(p)
		c.ends = append(c.ends, e)
	}
	c.data = p
	return c
}

func (d *dec) chunkBytes(c *chunked, i uint64) []byte {
	if c == nil {
		return nil
	}
	if i >= uint64(len(c.ends)) {
		d.fail("chunk %d does not exist (%d chunks)", i, len(c.ends))
		return nil
	}
	var s uint64
	if i > 0 {
		s = c.ends[i-1]
	}
	return d.slice(c.data+s, c.data+c.ends[i])
}

type rd struct {
	b   []byte
	p   int
	bad bool
}

func (r *rd) uv() uint64 {
	if r.p >= len(r.b) {
		r.bad = true
		return 0
	}
	v, n := binary.Uvarint(r.b[r.p:])
	if n <= 0 {
		r.bad = true
		return 0
	}
	r.p += n
	return v
}

func (r *rd) done() bool { return r.p == len(r.b) }

// Decode decodes a complete zap v16 file.
func Decode(data []byte) (*Decoded, error) {
	out := &Decoded{}
	f, err := ParseFooter(data)
	if err != nil {
		return nil, err
	}
	out.Footer = f
	if f.Version != 16 {
		return nil, fmt.Errorf("version %d, want 16", f.Version)
	}
	if crc := crc32.ChecksumIEEE(data[:len(data)-4]); crc != f.CRC {
		return nil, fmt.Errorf("CRC %08x in the footer, %08x computed", f.CRC, crc)
	}
	d := &dec{mem: data[:len(data)-FooterSize]}

	// sections index: number of fields, then one address per field
	nf, p := d.uvarint(f.SectionsIdx)
	if d.err != nil {
		return nil, d.err
	}
	if nf > 1<<16 {
		return nil, fmt.Errorf("%d fields", nf)
	}
	for id := uint64(0); id < nf; id++ {
		addr := d.u64(p)
		p += 8
		if addr == 0 {
			// address 0 = "no record" (nothing can precede offset 0)
			out.Fields = append(out.Fields, nil)
			continue
		}
		fl := &Field{Sections: map[uint16]uint64{}}
		nl, q := d.uvarint(addr)
		fl.Name = string(d.slice(q, q+nl))
		q += nl
		ns, q2 := d.uvarint(q)
		q = q2
		for s := uint64(0); s < ns && d.err == nil; s++ {
			if q+10 > uint64(len(d.mem)) {
				d.fail("section table of field %q beyond the data", fl.Name)
				break
			}
			typ := binary.BigEndian.Uint16(d.mem[q:])
			a := d.u64(q + 2)
			q += 10
			fl.Sections[typ] = a
		}
		out.Fields = append(out.Fields, fl)
	}
	if d.err != nil {
		return nil, d.err
	}
	for _, fl := range out.Fields {
		if fl == nil {
			continue
		}
		if a := fl.Sections[secInverted]; a != 0 {
			d.inverted(fl, a, &f)
		}
		if a := fl.Sections[secSynonym]; a != 0 {
			d.synonym(fl, a)
		}
		if a := fl.Sections[secVector]; a != 0 {
			d.vector(fl, a)
		}
		if d.err != nil {
			return nil, fmt.Errorf("field %q: %v", fl.Name, d.err)
		}
	}
	// stored fields
	for doc := uint64(0); doc < f.NumDocs; doc++ {
		off := d.u64(f.StoredIdx + 8*doc)
		ml, q := d.uvarint(off)
		dl, q2 := d.uvarint(q)
		meta := d.slice(q2, q2+ml)
		dat := d.slice(q2+ml, q2+ml+dl)
		if d.err != nil {
			return nil, fmt.Errorf("stored doc %d: %v", doc, d.err)
		}
		mr := &rd{b: meta}
		idLen := mr.uv()
		if idLen > uint64(len(dat)) {
			return nil, fmt.Errorf("stored doc %d: id length %d > data %d", doc, idLen, len(dat))
		}
		out.IDs = append(out.IDs, dat[:idLen])
		un, err := snappy.Decode(nil, dat[idLen:])
		if err != nil {
			return nil, fmt.Errorf("stored doc %d: snappy: %v", doc, err)
		}
		var vals []Stored
		for !mr.done() && !mr.bad {
			var s Stored
			s.FieldID = mr.uv()
			s.Type = byte(mr.uv())
			start := mr.uv()
			l := mr.uv()
			nap := mr.uv()
			for k := uint64(0); k < nap && !mr.bad; k++ {
				s.AP = append(s.AP, mr.uv())
			}
			if mr.bad || start+l > uint64(len(un)) {
				return nil, fmt.Errorf("stored doc %d: bad meta (value [%d:+%d] of %d bytes)", doc, start, l, len(un))
			}
			s.Value = un[start : start+l]
			vals = append(vals, s)
		}
		if mr.bad {
			return nil, fmt.Errorf("stored doc %d: truncated meta", doc)
		}
		out.Stored = append(out.Stored, vals)
	}
	return out, nil
}

func (d *dec) inverted(fl *Field, a uint64, f *Footer) {
	dvStart, p := d.uvarint(a)
	dvEnd, p := d.uvarint(p)
	dictLoc, _ := d.uvarint(p)
	if d.err != nil {
		return
	}
	if dictLoc != 0 {
		vl, q := d.uvarint(dictLoc)
		fstBytes := d.slice(q, q+vl)
		if d.err != nil {
			return
		}
		fst, err := vellum.Load(fstBytes)
		if err != nil {
			d.fail("dictionary FST: %v", err)
			return
		}
		fl.HasDict = true
		fl.Post = map[string][]Hit{}
		it, err := fst.Iterator(nil, nil)
		for err == nil {
			term, val := it.Current()
			t := string(term)
			fl.Terms = append(fl.Terms, t)
			hits := d.postings(val, f)
			if d.err != nil {
				d.err = fmt.Errorf("term %q: %v", t, d.err)
				return
			}
			fl.Post[t] = hits
			err = it.Next()
		}
		if err != vellum.ErrIteratorDone {
			d.fail("FST iteration: %v", err)
			return
		}
	}
	if dvStart != notUninverted && f.NumDocs > 0 {
		fl.HasDV = true
		fl.DV = map[uint64][]string{}
		if dvEnd < dvStart+16 || dvEnd > uint64(len(d.mem)) {
			d.fail("doc-value range [%d,%d) too small", dvStart, dvEnd)
			return
		}
		numChunks := d.u64(dvEnd - 8)
		offLen := d.u64(dvEnd - 16)
		op := dvEnd - 16 - offLen
		var ends []uint64
		for i := uint64(0); i < numChunks && d.err == nil; i++ {
			var e uint64
			e, op = d.uvarint(op)
			ends = append(ends, e)
		}
		var s uint64
		for i := range ends {
			e := ends[i]
			if e > s {
				d.dvChunk(fl, d.slice(dvStart+s, dvStart+e))
			}
			s = e
			if d.err != nil {
				return
			}
		}
	}
}

func (d *dec) dvChunk(fl *Field, b []byte) {
	r := &rd{b: b}
	n := r.uv()
	type md struct{ doc, end uint64 }
	var mds []md
	for i := uint64(0); i < n && !r.bad; i++ {
		mds = append(mds, md{r.uv(), r.uv()})
	}
	if r.bad {
		d.fail("doc-value chunk header truncated")
		return
	}
	if n == 0 {
		return
	}
	un, err := snappy.Decode(nil, b[r.p:])
	if err != nil {
		d.fail("doc-value chunk: snappy: %v", err)
		return
	}
	var s uint64
	for _, m := range mds {
		if m.end < s || m.end > uint64(len(un)) {
			d.fail("doc-value chunk: doc %d range [%d,%d) outside %d bytes", m.doc, s, m.end, len(un))
			return
		}
		part := un[s:m.end]
		s = m.end
		for len(part) > 0 {
			i := bytes.IndexByte(part, termSeparator)
			if i < 0 {
				d.fail("doc-value chunk: doc %d: term without terminator", m.doc)
				return
			}
			fl.DV[m.doc] = append(fl.DV[m.doc], string(part[:i]))
			part = part[i+1:]
		}
	}
}

func (d *dec) postings(val uint64, f *Footer) []Hit {
	if val&enc1HitMask == enc1Hit {
		return []Hit{{Doc: val & mask31, Freq: 1, NormBits: (val >> 31) & mask31, OneHit: true}}
	}
	if val&enc1HitMask != 0 {
		d.fail("reserved FST value encoding %x", val)
		return nil
	}
	freqOff, p := d.uvarint(val)
	locOff, p := d.uvarint(p)
	bl, p := d.uvarint(p)
	rb := d.slice(p, p+bl)
	if d.err != nil {
		return nil
	}
	bm := roaring.New()
	if _, err := bm.FromBuffer(append([]byte(nil), rb...)); err != nil {
		d.fail("postings bitmap: %v", err)
		return nil
	}
	card := bm.GetCardinality()
	cs, err := ChunkSize(f.ChunkMode, card, f.NumDocs)
	if err != nil {
		d.fail("chunk size: %v", err)
		return nil
	}
	fc := d.chunkedAt(freqOff)
	lc := d.chunkedAt(locOff)
	if d.err != nil {
		return nil
	}
	if fc == nil {
		d.fail("postings without freq/norm details")
		return nil
	}
	var hits []Hit
	docs := bm.ToArray()
	i := 0
	for i < len(docs) {
		chunk := uint64(docs[i]) / cs
		j := i
		for j < len(docs) && uint64(docs[j])/cs == chunk {
			j++
		}
		fr := &rd{b: d.chunkBytes(fc, chunk)}
		var lr *rd
		if lc != nil {
			lr = &rd{b: d.chunkBytes(lc, chunk)}
		}
		if d.err != nil {
			return nil
		}
		for _, doc := range docs[i:j] {
			h := Hit{Doc: uint64(doc)}
			fh := fr.uv()
			h.Freq = fh >> 1
			hasLocs := fh&1 != 0
			if h.Freq > 0 {
				h.NormBits = fr.uv()
			}
			if fr.bad {
				d.fail("freq/norm chunk %d exhausted at doc %d (chunk size %d, cardinality %d)", chunk, doc, cs, card)
				return nil
			}
			if hasLocs {
				if lr == nil {
					d.fail("doc %d has locations but the term has no location details", doc)
					return nil
				}
				nb := lr.uv()
				end := lr.p + int(nb)
				if lr.bad || end > len(lr.b) {
					d.fail("location chunk %d exhausted at doc %d", chunk, doc)
					return nil
				}
				for lr.p < end {
					var l Loc
					l.FieldID = lr.uv()
					l.Pos = lr.uv()
					l.Start = lr.uv()
					l.End = lr.uv()
					na := lr.uv()
					for k := uint64(0); k < na && !lr.bad; k++ {
						l.AP = append(l.AP, lr.uv())
					}
					if lr.bad {
						d.fail("location of doc %d truncated", doc)
						return nil
					}
					h.Locs = append(h.Locs, l)
				}
				if lr.p != end {
					d.fail("locations of doc %d overrun their byte count", doc)
					return nil
				}
			}
			hits = append(hits, h)
		}
		if !fr.done() {
			d.fail("freq/norm chunk %d has %d unread bytes after its %d hits (chunk size %d, cardinality %d): writer and layout disagree", chunk, len(fr.b)-fr.p, j-i, cs, card)
			return nil
		}
		if lr != nil && !lr.done() {
			d.fail("location chunk %d has %d unread bytes after its hits", chunk, len(lr.b)-lr.p)
			return nil
		}
		i = j
	}
	// chunks that hold no hit of this term must be empty
	used := map[uint64]bool{}
	for _, doc := range docs {
		used[uint64(doc)/cs] = true
	}
	for k := range fc.ends {
		if !used[uint64(k)] && len(d.chunkBytes(fc, uint64(k))) > 0 {
			d.fail("freq/norm chunk %d is not empty but no hit maps to it (chunk size %d)", k, cs)
			return nil
		}
	}
	return hits
}

func (d *dec) synonym(fl *Field, a uint64) {
	_, p := d.uvarint(a)
	_, p = d.uvarint(p)
	loc, _ := d.uvarint(p)
	vl, q := d.uvarint(loc)
	fstBytes := d.slice(q, q+vl)
	if d.err != nil {
		return
	}
	fst, err := vellum.Load(fstBytes)
	if err != nil {
		d.fail("thesaurus FST: %v", err)
		return
	}
	fl.HasThes = true
	fl.Thes = map[string][]SynPair{}
	q += vl
	idTerm := map[uint32]string{}
	if fst.Len() > 0 {
		n, q2 := d.uvarint(q)
		q = q2
		if n > uint64(len(d.mem)) {
			d.fail("synonym table of %d entries", n)
			return
		}
		for i := uint64(0); i < n && d.err == nil; i++ {
			id, q3 := d.uvarint(q)
			tl, q4 := d.uvarint(q3)
			idTerm[uint32(id)] = string(d.slice(q4, q4+tl))
			q = q4 + tl
		}
	}
	it, err := fst.Iterator(nil, nil)
	for err == nil && d.err == nil {
		term, off := it.Current()
		t := string(term)
		fl.ThesTerms = append(fl.ThesTerms, t)
		bl, p := d.uvarint(off)
		rb := d.slice(p, p+bl)
		if d.err != nil {
			return
		}
		bm := roaring64.New()
		if _, err := bm.ReadFrom(bytes.NewReader(rb)); err != nil {
			d.fail("synonym postings of %q: %v", t, err)
			return
		}
		itb := bm.Iterator()
		for itb.HasNext() {
			code := itb.Next()
			syn, ok := idTerm[uint32(code>>32)]
			if !ok {
				d.fail("synonym id %d of term %q not in the id table", code>>32, t)
				return
			}
			fl.Thes[t] = append(fl.Thes[t], SynPair{Syn: syn, Doc: uint32(code)})
		}
		err = it.Next()
	}
	if err != nil && err != vellum.ErrIteratorDone {
		d.fail("thesaurus FST iteration: %v", err)
	}
}

func (d *dec) vector(fl *Field, a uint64) {
	_, p := d.uvarint(a)
	_, p = d.uvarint(p)
	v := &VecSection{IDToDoc: map[int64]uint64{}}
	v.Opt, p = d.uvarint(p)
	v.NumVecs, p = d.uvarint(p)
	if d.err != nil || v.NumVecs > uint64(len(d.mem)) {
		d.fail("vector section header")
		return
	}
	for i := uint64(0); i < v.NumVecs; i++ {
		if p >= uint64(len(d.mem)) {
			d.fail("vector id table truncated")
			return
		}
		id, n := binary.Varint(d.mem[p:])
		if n <= 0 {
			d.fail("vector id table: bad varint")
			return
		}
		p += uint64(n)
		var doc uint64
		doc, p = d.uvarint(p)
		v.IDToDoc[id] = doc
	}
	bl, p := d.uvarint(p)
	v.Blob = d.slice(p, p+bl)
	fl.Vec = v
}
